"""Shared helpers of the bounded oracle harness (process pool with hard per-case timeouts,
result collection, execution of generated Python, compilation + ctypes loading of generated C)."""
from __future__ import annotations

import contextlib
import ctypes
import hashlib
import io
import json
import logging
import math
import multiprocessing as mp
import os
import shutil
import subprocess
import sys
import tempfile
import time
import traceback
import warnings
from multiprocessing.connection import wait as mp_wait

HERE = os.path.dirname(os.path.abspath(__file__))
if HERE not in sys.path:
    sys.path.insert(0, HERE)

warnings.filterwarnings("ignore")
os.environ.setdefault("JAX_PLATFORMS", "cpu")
os.environ.setdefault("XLA_FLAGS", "--xla_cpu_multi_thread_eigen=false intra_op_parallelism_threads=1")
os.environ.setdefault("OMP_NUM_THREADS", "1")

import numpy as np  # noqa: E402
import gotranx  # noqa: E402
import structlog  # noqa: E402

structlog.configure(wrapper_class=structlog.make_filtering_bound_logger(logging.CRITICAL))

from gotranx.load import ode_from_string  # noqa: E402
from gotranx.cli import gotran2py, gotran2c  # noqa: E402
from gotranx.codegen.python import Format as PyFormat  # noqa: E402
from gotranx.codegen.c import Format as CFormat  # noqa: E402
from gotranx.schemes import Scheme  # noqa: E402

PY = "/venv/bin/python"
TMPROOT = os.environ.get("TMPDIR") or "/tmp"
_RUN_ROOT = None


def tmp_root() -> str:
    """directory in which every temp dir of this run is created (removed as a whole at the end)"""
    return _RUN_ROOT or TMPROOT


@contextlib.contextmanager
def run_root():
    global _RUN_ROOT
    prev = _RUN_ROOT
    _RUN_ROOT = tempfile.mkdtemp(prefix="replay_run_", dir=TMPROOT)
    try:
        yield _RUN_ROOT
    finally:
        shutil.rmtree(_RUN_ROOT, ignore_errors=True)
        _RUN_ROOT = prev


# --------------------------------------------------------------------------------------
# small utilities
# --------------------------------------------------------------------------------------
def sha(obj) -> str:
    if not isinstance(obj, (str, bytes)):
        obj = json.dumps(obj, sort_keys=True, default=str)
    if isinstance(obj, str):
        obj = obj.encode()
    return hashlib.sha1(obj).hexdigest()[:16]


def exc_name(e: BaseException) -> str:
    return type(e).__name__


def short(e, n=300) -> str:
    s = str(e).replace("\n", " | ")
    return s if len(s) <= n else s[:n] + "..."


def close(a, b, rtol=1e-9, atol=1e-12) -> bool:
    a, b = float(a), float(b)
    if math.isnan(a) or math.isnan(b):
        return False
    if a == b:
        return True
    return abs(a - b) <= atol + rtol * max(abs(a), abs(b))


def ref_atol(scale=0.0) -> float:
    """absolute tolerance of every value comparison of the oracles: 1e-12 x (1 + largest operand magnitude).  `scale` is the
    largest operand the reference met in an addition / subtraction / Mod / trigonometric function (RefModel.last_maxabs),
    or the magnitude of the compared quantities when two generated modules are compared with each other"""
    scale = float(scale)
    if not math.isfinite(scale):
        scale = 0.0
    return 1e-12 * (1.0 + abs(scale))


def vclose(got, want, scale=0.0, rtol=1e-9) -> bool:
    """relative tolerance rtol plus the absolute tolerance ref_atol(max(scale, |got|, |want|)); NaN never matches"""
    got, want = float(got), float(want)
    if math.isnan(got) or math.isnan(want):
        return False
    if got == want:
        return True
    m = max(abs(got), abs(want))
    if not math.isfinite(m):
        return False
    return abs(got - want) <= ref_atol(max(abs(float(scale)), m)) + rtol * m


def all_close(a, b, rtol=1e-9, atol=1e-12) -> bool:
    a, b = np.asarray(a, dtype=float), np.asarray(b, dtype=float)
    if a.shape != b.shape:
        return False
    return all(close(x, y, rtol, atol) for x, y in zip(a.ravel(), b.ravel()))


def tolist(a):
    return [float(x) for x in np.asarray(a, dtype=float).ravel()]


@contextlib.contextmanager
def quiet():
    """swallow stdout/stderr chatter and numpy warnings of generated code"""
    with np.errstate(all="ignore"), warnings.catch_warnings():
        warnings.simplefilter("ignore")
        with contextlib.redirect_stdout(io.StringIO()):
            yield


@contextlib.contextmanager
def tempdir(prefix="replay_"):
    d = tempfile.mkdtemp(prefix=prefix, dir=tmp_root())
    try:
        yield d
    finally:
        shutil.rmtree(d, ignore_errors=True)


# --------------------------------------------------------------------------------------
# gotranx front door
# --------------------------------------------------------------------------------------
SCHEME_OF = {s.value: s for s in Scheme}


def load(text: str, name="ode"):
    with quiet():
        return ode_from_string(text, name=name)


def py_code(ode, schemes=(), backend="numpy", **kw) -> str:
    sch = [SCHEME_OF[s] if isinstance(s, str) else s for s in schemes] or None
    with quiet():
        return gotran2py.get_code(ode, scheme=sch, format=PyFormat.none, backend=gotran2py.Backend(backend), **kw)


def c_code(ode, schemes=(), **kw) -> str:
    sch = [SCHEME_OF[s] if isinstance(s, str) else s for s in schemes] or None
    with quiet():
        return gotran2c.get_code(ode, scheme=sch, format=CFormat.none, **kw)


class Mod(dict):
    """namespace of an exec'ed generated module with attribute access"""

    def __getattr__(self, k):
        try:
            return self[k]
        except KeyError:
            raise AttributeError(k) from None


def exec_py(code: str) -> Mod:
    ns = Mod()
    with quiet():
        exec(compile(code, "<generated>", "exec"), ns)
    return ns


def np_args(mod: Mod, pt: dict, which="states"):
    """arrays (states, params) for a point {t, states{name:val}, params{name:val}} laid out by
    the module's own index functions"""
    s = np.zeros(len(mod["state"]))
    p = np.zeros(len(mod["parameter"]))
    for k, v in pt["states"].items():
        if k in mod["state"]:
            s[mod["state_index"](k)] = v
    for k, v in pt["params"].items():
        if k in mod["parameter"]:
            p[mod["parameter_index"](k)] = v
    return s, p


class CLib:
    """compile generated C with gcc (default mode) into a shared object in a private temp
    dir and load it via ctypes; `close()` (or the context manager) removes everything."""

    def __init__(self, code: str, cc="gcc", flags=("-shared", "-fPIC", "-O0")):
        self.dir = tempfile.mkdtemp(prefix="replay_c_", dir=tmp_root())
        self.lib = None
        src = os.path.join(self.dir, "m.c")
        so = os.path.join(self.dir, "m.so")
        with open(src, "w") as f:
            f.write(code)
        r = subprocess.run([cc, *flags, src, "-o", so, "-lm"], capture_output=True, text=True)
        self.returncode, self.stderr = r.returncode, r.stderr
        if r.returncode == 0:
            self.lib = ctypes.CDLL(so)

    def ok(self):
        return self.lib is not None

    def has(self, name):
        try:
            getattr(self.lib, name)
            return True
        except AttributeError:
            return False

    def index(self, fn, name: str) -> int:
        f = getattr(self.lib, fn)
        f.restype = ctypes.c_int
        f.argtypes = [ctypes.c_char_p]
        return f(name.encode())

    def const(self, name) -> int:
        return ctypes.c_int.in_dll(self.lib, name).value

    def init(self, fn, n) -> np.ndarray:
        out = np.full(n + 2, np.nan)
        f = getattr(self.lib, fn)
        f.restype = None
        f.argtypes = [ctypes.POINTER(ctypes.c_double)]
        f(out.ctypes.data_as(ctypes.POINTER(ctypes.c_double)))
        return out

    def call(self, fn, order: str, n_out: int, s=None, t=0.0, p=None, d=None, extra=None) -> np.ndarray:
        """order: letters of s,t,p,d in the C formal order; values appended last; `extra`
        (array) appended after values when given (missing_variables)"""
        f = getattr(self.lib, fn)
        f.restype = None
        dp = ctypes.POINTER(ctypes.c_double)
        s = np.ascontiguousarray(s if s is not None else np.zeros(1), dtype=float)
        p = np.ascontiguousarray(p if p is not None and len(p) else np.zeros(1), dtype=float)
        out = np.full(n_out + 2, np.nan)
        m = {"s": (dp, s.ctypes.data_as(dp)), "p": (dp, p.ctypes.data_as(dp)), "t": (ctypes.c_double, float(t)), "d": (ctypes.c_double, float(d) if d is not None else 0.0)}
        types = [m[c][0] for c in order] + [dp]
        args = [m[c][1] for c in order] + [out.ctypes.data_as(dp)]
        if extra is not None:
            e = np.ascontiguousarray(extra, dtype=float)
            types.append(dp)
            args.append(e.ctypes.data_as(dp))
        f.argtypes = types
        f(*args)
        return out

    def close(self):
        self.lib = None
        shutil.rmtree(self.dir, ignore_errors=True)

    def __enter__(self):
        return self

    def __exit__(self, *a):
        self.close()


# --------------------------------------------------------------------------------------
# result protocol
# --------------------------------------------------------------------------------------
def fail(sig: str, what: str, inp: dict, expected=None, actual=None, detail="") -> dict:
    return {"signature": sig, "what": what, "input": inp, "expected": expected, "actual": actual, "detail": detail}


def new_result() -> dict:
    return {"evals": 0, "nontrivial": [], "failures": [], "errors": [], "sample": None, "info": {}}


def note(res, key, n=1):
    res["info"][key] = res["info"].get(key, 0) + n


def jsonable(o):
    if isinstance(o, dict):
        return {str(k): jsonable(v) for k, v in o.items()}
    if isinstance(o, (list, tuple, set, frozenset)):
        return [jsonable(v) for v in o]
    if isinstance(o, (np.floating,)):
        return float(o)
    if isinstance(o, (np.integer,)):
        return int(o)
    if isinstance(o, np.ndarray):
        return [jsonable(v) for v in o.tolist()]
    if isinstance(o, float):
        if math.isnan(o):
            return "nan"
        if math.isinf(o):
            return "inf" if o > 0 else "-inf"
        return o
    if isinstance(o, (str, int, bool)) or o is None:
        return o
    return str(o)


# --------------------------------------------------------------------------------------
# process pool with kill-on-timeout
# --------------------------------------------------------------------------------------
def _worker(conn, fn):
    import signal

    signal.signal(signal.SIGINT, signal.SIG_IGN)
    while True:
        try:
            msg = conn.recv()
        except (EOFError, OSError):
            return
        if msg is None:
            return
        idx, case = msg
        try:
            res = fn(case)
        except BaseException as e:  # noqa: BLE001 - the harness must survive anything
            res = new_result()
            res["errors"].append(f"harness exception in check: {exc_name(e)}: {short(e)} :: {traceback.format_exc()[-600:]}")
        try:
            conn.send((idx, jsonable(res)))
        except Exception as e:  # noqa: BLE001
            conn.send((idx, {"evals": 0, "nontrivial": [], "failures": [], "errors": [f"unsendable result: {e}"], "sample": None}))


class Pool:
    def __init__(self, fn, nproc):
        self.fn, self.n = fn, nproc
        self.ctx = mp.get_context("fork")
        self.workers = []  # [proc, conn, (idx, case, t_start) | None]

    def _spawn(self):
        a, b = self.ctx.Pipe()
        p = self.ctx.Process(target=_worker, args=(b, self.fn), daemon=True)
        p.start()
        b.close()
        return [p, a, None]

    def run(self, cases, deadline, case_timeout):
        """yield (case, result|None, status) with status in ok/timeout/crash; stops dispatching at
        the deadline (running cases are given until deadline + 2 s)."""
        it = iter(enumerate(cases))
        self.workers = [self._spawn() for _ in range(self.n)]
        exhausted = False
        try:
            while True:
                now = time.time()
                for w in self.workers:
                    if w[2] is None and not exhausted and now < deadline:
                        try:
                            idx, case = next(it)
                        except StopIteration:
                            exhausted = True
                            break
                        w[1].send((idx, case))
                        w[2] = (idx, case, time.time())
                busy = [w for w in self.workers if w[2] is not None]
                if not busy:
                    if exhausted or time.time() >= deadline:
                        return
                    continue
                ready = mp_wait([w[1] for w in busy], timeout=0.25)
                now = time.time()
                for w in busy:
                    idx, case, t0 = w[2]
                    if w[1] in ready:
                        try:
                            ridx, res = w[1].recv()
                            w[2] = None
                            yield case, res, "ok"
                        except (EOFError, OSError):
                            self._replace(w)
                            yield case, None, "crash"
                    elif now - t0 > case_timeout or now > deadline + 2.0:
                        status = "timeout" if now - t0 > case_timeout else "deadline"
                        self._replace(w)
                        if status == "timeout":
                            yield case, None, "timeout"
                    elif not w[0].is_alive():
                        self._replace(w)
                        yield case, None, "crash"
        finally:
            self.close()

    def _replace(self, w):
        try:
            w[0].kill()
            w[0].join(1)
            w[1].close()
        except Exception:  # noqa: BLE001
            pass
        nw = self._spawn()
        w[0], w[1], w[2] = nw[0], nw[1], None

    def close(self):
        for w in self.workers:
            try:
                if w[2] is None:
                    w[1].send(None)
                else:
                    w[0].kill()
            except Exception:  # noqa: BLE001
                pass
        for w in self.workers:
            try:
                w[0].join(0.5)
                if w[0].is_alive():
                    w[0].kill()
                w[1].close()
            except Exception:  # noqa: BLE001
                pass
        self.workers = []


# --------------------------------------------------------------------------------------
# standard run / replay drivers used by every oracle module
# --------------------------------------------------------------------------------------
def focus_match(sig_or_tag: str, focus: str | None) -> bool:
    if not focus:
        return True
    return sig_or_tag.startswith(focus) or focus.startswith(sig_or_tag)


def exc_site(e: BaseException) -> str:
    """ExceptionName@innermost gotranx function on the traceback (stable name of the raising site)"""
    site = ""
    for fr in traceback.extract_tb(e.__traceback__):
        if "/gotranx/" in fr.filename:
            site = fr.name
    return f"{type(e).__name__}@{site}" if site else type(e).__name__


def std_run(mod, tier, seed, focus, deadline, nproc=None, case_timeout=None) -> dict:
    """mod provides: ID, RULE, cases(tier, seed, focus) -> iterable of JSON-able case dicts (each may
    carry 'tags': signature prefixes it aims at), check(case) -> result dict, optionally
    on_timeout(case) -> result dict and CASE_TIMEOUT.  Failures carrying '_shrink': {'base': sig-prefix}
    are delta-debugged in a second phase (3 smallest per provisional signature)."""
    t0 = time.time()
    nproc = nproc or getattr(mod, "NPROC", None) or min(16, os.cpu_count() or 4)
    case_timeout = case_timeout or getattr(mod, "CASE_TIMEOUT", 30)
    out = {"cases": 0, "nontrivial": set(), "samples": [], "failures": {}, "errors": [], "info": {}, "cands": {}}
    uses_shrink = getattr(mod, "USES_SHRINK", False)
    d1 = t0 + (deadline - t0) * (0.72 if uses_shrink else 1.0)

    def gen():
        allc = mod.cases(tier, seed, focus)
        if not focus:
            yield from allc
            return
        buf, hit = [], False
        for c in allc:
            tags = c.get("tags") or []
            if any(focus_match(t, focus) for t in tags):
                hit = True
                yield c
            elif not hit:
                buf.append(c)
        if not hit:  # no generator is tagged for this focus: run everything
            yield from buf

    def add_failure(f):
        if focus and not f["signature"].startswith(focus):
            return
        f = {k: v for k, v in f.items() if not k.startswith("_")}
        f["input"] = {k: v for k, v in f["input"].items() if not k.startswith("_")}
        out["failures"].setdefault(f["signature"], []).append(f)

    def absorb(case, res):
        out["cases"] += int(res.get("evals", 0))
        for h in res.get("nontrivial") or []:
            out["nontrivial"].add(h)
        if res.get("sample") is not None and len(out["samples"]) < 5:
            out["samples"].append(res["sample"])
        for f in res.get("failures") or []:
            if f.get("_shrink") and uses_shrink:
                if focus and not (f["signature"].startswith(focus) or focus.startswith(f["_shrink"]["base"])):
                    continue
                out["cands"].setdefault(f["signature"], []).append(f)
            else:
                add_failure(f)
        for e in res.get("errors") or []:
            if len(out["errors"]) < 50 and e not in out["errors"]:
                out["errors"].append(e)
        for k, v in (res.get("info") or {}).items():
            out["info"][k] = out["info"].get(k, 0) + v

    def handle(case, res, status):
        if status == "ok":
            absorb(case, res)
            return
        h = getattr(mod, "on_timeout" if status == "timeout" else "on_crash", None)
        if h:
            absorb(case, jsonable(h(case)))
        elif status == "timeout":
            out["info"]["case-timeouts"] = out["info"].get("case-timeouts", 0) + 1
            if case.get("probe"):  # a fixed probe case must never be lost silently: it is part of what every run promises to cover
                out["errors"].append(f"fixed probe case timed out (not evaluated): {json.dumps(case, default=str)[:200]}")
        else:
            out["errors"].append(f"worker died on case: {json.dumps(case, default=str)[:300]}")

    g = gen()
    pool = Pool(mod.check, nproc)
    for case, res, status in pool.run(g, d1, case_timeout):
        handle(case, res, status)
    if uses_shrink and not out["cands"] and time.time() < deadline - 3:  # nothing to shrink: use the whole budget
        pool = Pool(mod.check, nproc)
        for case, res, status in pool.run(g, deadline, case_timeout):
            handle(case, res, status)
    # phase 2: shrink up to 3 smallest candidates per provisional signature
    jobs = []
    for sig in sorted(out["cands"]):
        fs = sorted(out["cands"][sig], key=lambda f: len(json.dumps(f["input"], default=str)))
        seen = set()
        for f in fs:
            h = sha(f["input"])
            if h not in seen:
                seen.add(h)
                jobs.append(f)
            if len(seen) == 3:
                break
    if jobs:
        sh = getattr(mod, "shrink_job", None) or (lambda f: shrink_failure(mod.check, f, f["_shrink"]["base"], keep_components=f["_shrink"].get("keep_components", False),
                                                                            max_seconds=max(4.0, min(20.0, (deadline - time.time()) * 0.8))))
        done = set()
        pool2 = Pool(lambda f: {"failures": [sh(f)]}, nproc)
        for f, res, status in pool2.run(jobs, deadline, 40):
            done.add(id(f))
            if status == "ok" and res.get("failures"):
                add_failure(res["failures"][0])
            else:
                add_failure(f)
        for f in jobs:
            if id(f) not in done:
                add_failure(f)
    failures = []
    for sig in sorted(out["failures"]):
        fs = sorted(out["failures"][sig], key=lambda f: len(json.dumps(f["input"], default=str)))
        seen, kept = set(), []
        for f in fs:
            h = sha(f["input"])
            if h in seen:
                continue
            seen.add(h)
            kept.append(f)
            if len(kept) == 3:
                break
        failures.extend(kept)
    return {
        "cases": out["cases"],
        "distinct_nontrivial": len(out["nontrivial"]),
        "rule": " ".join(mod.RULE.split()),
        "samples": out["samples"][:5],
        "failures": failures,
        "errors": out["errors"],
        "info": dict(sorted(out["info"].items())),
        "wall_s": round(time.time() - t0, 2),
    }


def std_replay(mod, failure: dict, timeout=None) -> dict:
    """re-run the stored input in a killable child; still_fails iff a failure with the same signature (or one that extends it) recurs"""
    timeout = timeout or getattr(mod, "CASE_TIMEOUT", 30) * 2
    sig = failure.get("signature", "")
    case = dict(failure["input"])
    case["_replay"] = sig
    pool = Pool(mod.check, 1)
    for _, res, status in pool.run([case], time.time() + timeout + 5, timeout):
        if status == "timeout":
            h = getattr(mod, "on_timeout", None)
            res = jsonable(h(case)) if h else {"failures": [], "errors": ["timeout"]}
        elif status != "ok":
            h = getattr(mod, "on_crash", None)
            res = jsonable(h(case)) if h else {"failures": [], "errors": ["worker crashed"]}
        sigs = [f["signature"] for f in res.get("failures", [])]
        if any(s_.startswith(sig) for s_ in sigs):  # a listed finding may be stored with a signature prefix
            f = [f for f in res["failures"] if f["signature"].startswith(sig)][0]
            return {"still_fails": True, "detail": f"{sig}: {f.get('what', '')} | expected={json.dumps(f.get('expected'), default=str)[:200]} actual={json.dumps(f.get('actual'), default=str)[:200]} {str(f.get('detail', ''))[:300]}"}
        return {"still_fails": False, "detail": f"signature {sig} not reproduced; observed signatures={sigs} errors={res.get('errors', [])[:3]}"}
    return {"still_fails": False, "detail": "no result"}


def make_api(mod_globals):
    """install run/replay in an oracle module"""
    import types

    def run(tier, seed, focus, deadline):
        m = types.SimpleNamespace(**{k: v for k, v in mod_globals.items() if not k.startswith("__")})
        with run_root():
            return std_run(m, tier, seed, focus, deadline)

    def replay(failure):
        m = types.SimpleNamespace(**{k: v for k, v in mod_globals.items() if not k.startswith("__")})
        with run_root():
            return std_replay(m, failure)

    return run, replay


# --------------------------------------------------------------------------------------
# model cases: either explicit ({"ode": text, "points": [...]}) or seeded
# ({"mseed": k, "opts": {GenOpts kwargs}, "npts": n}); `materialize` makes them explicit
# --------------------------------------------------------------------------------------
def materialize(case: dict) -> dict:
    import random

    import modelgen as mg

    c = dict(case)
    if "ode" not in c:
        opts = dict(c.get("opts") or {})
        for k in ("n_states", "n_params", "n_inter", "n_comps", "features", "force", "own_forms"):
            if k in opts and opts[k] is not None:
                opts[k] = tuple(opts[k])
        m = mg.gen_model(int(c["mseed"]), mg.GenOpts(**opts))
        c["ode"] = m.text
        c["_model"] = m
    if "points" not in c:
        ref = mg.RefModel(c["ode"])
        c["points"] = mg.valid_points(ref, random.Random(f"pts/{c.get('mseed', 0)}/{c.get('pseed', 0)}"), int(c.get("npts", 4)),
                                      spread=float(c.get("spread", 0.5)))
    return c


def pt_arrays(pt, state_names, param_names):
    return [pt["states"][n] for n in state_names], [pt["params"][n] for n in param_names]


def restrict_point(pt: dict, ref) -> dict:
    return {"t": pt["t"], "states": {k: v for k, v in pt["states"].items() if k in ref.states},
            "params": {k: v for k, v in pt["params"].items() if k in ref.params}}


FEATURE_PRIORITY = ["Mod", "floor", "ContinuousConditional", "Eq", "Not", "And3", "Or3", "And4", "Or4", "And2", "Or2", "Conditional",
                    "Lt", "Gt", "Le", "Ge", "abs", "Abs", "sqrt", "log", "ln", "exp", "tan", "asin", "acos", "atan", "sin", "cos",
                    "**", "un-", "un+", "/", "-", "*", "+", "pi"]
FEATURE_ALIAS = {"**": "pow", "un-": "unary-minus", "un+": "unary-plus", "/": "div", "-": "sub", "*": "mul", "+": "add"}


def main_feature(text: str, names=None) -> str:
    """the highest-priority grammar construct present in (the closure of `names` in) a model text;
    used on *shrunk* models to name the construct a failure is about"""
    import modelgen as mg

    try:
        ref = mg.RefModel(text)
    except Exception:  # noqa: BLE001
        return "unknown"
    feats = set()
    todo = set(ref.assigns)
    if names:
        todo = set()
        for n in names:
            todo |= ref.closure(n)
    for a in todo:
        feats.update(mg.expr_calls(ref.assigns[a].ast))
    for f in FEATURE_PRIORITY:
        if f in feats:
            return FEATURE_ALIAS.get(f, f)
    return "plain"


def shrink_failure(check, failure: dict, base_sig: str, max_steps=60, max_seconds=15.0, keep_components=False) -> dict:
    """delta-debug failure['input']['ode'] keeping a failure whose signature starts with base_sig;
    returns the failure reported by `check` on the smallest text found (or the original)"""
    import shrink as sh

    inp = failure["input"]
    found = {}

    def still(text):
        c = dict(inp)
        c["ode"] = text
        c["_noshrink"] = True
        r = check(c)
        for f in r.get("failures", []):
            if f["signature"].startswith(base_sig):
                found[text] = f
                return True
        return False

    try:
        best = sh.shrink(inp["ode"], still, max_steps=max_steps, max_seconds=max_seconds, keep_components=keep_components)
    except Exception:  # noqa: BLE001
        return failure
    f = found.get(best)
    if f is None:
        return failure
    f = dict(f)
    f["input"] = {k: v for k, v in f["input"].items() if not k.startswith("_")}
    f["detail"] = (str(f.get("detail", "")) + f" [shrunk from a {len(inp['ode'])}-char model]").strip()
    return f


def msg_key(e, words=6) -> str:
    """stable slug of an exception message: quotes and digits normalised, first few words"""
    import re as _re

    s = str(e).split("\n")[0]
    s = _re.sub(r"\d+", "N", s)
    s = _re.sub(r"[^A-Za-z_.]+", " ", s).strip().lower().split()
    return "-".join(s[:words])[:60] or "no-message"


def compile_key(msg: str, names=()) -> str:
    """stable slug of a compiler error: model identifiers replaced by NAME, suggestions dropped"""
    import re as _re

    s = str(msg).split(";")[0]
    toks = _re.findall(r"[A-Za-z_]\w*|\S", s)
    toks = ["NAME" if t in names else t for t in toks]
    s = _re.sub(r"[^A-Za-z0-9_]+", "-", " ".join(toks)).strip("-")
    return s[:60] or "compile-failed"


# --------------------------------------------------------------------------------------
# classification of code-generation exceptions (listed findings keep a specific signature;
# decided from the loaded expressions / the model text / the message, never from the printers)
# --------------------------------------------------------------------------------------
PW_COLLAPSES = ":piecewise-collapses-under-simplify"


def model_exprs(ode) -> list:
    """the sympy expressions of the loaded model's assignments"""
    out = []
    for a in tuple(ode.intermediates) + tuple(ode.state_derivatives):
        ex = getattr(a, "expr", None)
        if ex is not None:
            out.append(ex)
    return out


def own_state_derivative_exprs(ode) -> list:
    """d(rate expression)/d(own state), every other name held fixed: what the Rush-Larsen schemes print in addition to the model's expressions"""
    import sympy

    out = []
    for sd in ode.state_derivatives:
        try:
            out.append(sympy.diff(sd.expr, sd.state.symbol))
        except Exception:  # noqa: BLE001
            pass
    return out


def piecewise_collapses(exprs, seconds=6.0):
    """does sympy.simplify (what codegen.base._print_Piecewise applies before the printers index the result) turn one of the Piecewise
    sub-expressions of `exprs` (and the Piecewise form in which sympy prints an ITE(...) inside their conditions) into something that is no longer a Piecewise of the same number (>= 2) of branches ending in a True
    condition - or raise on it?  True / False / None (time limit reached before a verdict).  The listed defect: a condition that is
    constant / tautological or equal branches collapse the Piecewise and the printers index what is left."""
    import signal

    import sympy

    class _Late(BaseException):
        pass

    def _h(*_a):
        raise _Late()

    seen = set()
    todo = []
    from sympy.logic.boolalg import ITE, simplify_logic

    def take(pw):
        if isinstance(pw, sympy.Piecewise) and pw not in seen:
            seen.add(pw)
            todo.append(pw)

    for ex in exprs:
        try:
            for pw in ex.atoms(sympy.Piecewise):
                take(pw)
                for arg in pw.args:  # a condition with ITE(...) is printed as simplify_logic(cond); sympy prints an ITE as ITE.rewrite(Piecewise)
                    if arg.cond.has(ITE):
                        for ite in set(arg.cond.atoms(ITE)) | set(simplify_logic(arg.cond).atoms(ITE)):
                            take(ite.rewrite(sympy.Piecewise))
            for ite in ex.atoms(ITE):
                take(ite.rewrite(sympy.Piecewise))
        except Exception:  # noqa: BLE001
            continue
    if not todo:
        return False
    todo.sort(key=lambda e_: len(str(e_)))
    main = __import__("threading").current_thread() is __import__("threading").main_thread()
    t0 = time.time()
    old_h = old_t = None
    if main:
        old_h = signal.signal(signal.SIGALRM, _h)
        old_t = signal.setitimer(signal.ITIMER_REAL, seconds)
    verdict = False
    try:
        for pw in todo:
            try:
                with quiet():
                    sx = sympy.simplify(pw)
            except _Late:
                raise
            except Exception:  # noqa: BLE001 - simplify itself chokes on the Piecewise (`-1*1.0 < -1*1.0`)
                verdict = True
                break
            if not isinstance(sx, sympy.Piecewise) or len(sx.args) != len(pw.args) or len(sx.args) < 2 or sx.args[-1].cond != sympy.true:
                verdict = True
                break
            # the printers simplify again when they reach a NESTED Piecewise of the simplified result (whose conditions the outer
            # simplify may have rewritten, e.g. ITE(a > 3, True, a < 4 | ...) into the tautology (a > 3) | (a < 4) | ...)
            for inner in sx.atoms(sympy.Piecewise):
                if inner == sx:
                    continue
                try:
                    with quiet():
                        ix = sympy.simplify(inner)
                except _Late:
                    raise
                except Exception:  # noqa: BLE001
                    verdict = True
                    break
                if not isinstance(ix, sympy.Piecewise) or len(ix.args) != len(inner.args) or len(ix.args) < 2 or ix.args[-1].cond != sympy.true:
                    verdict = True
                    break
            if verdict:
                break
    except _Late:
        verdict = None
    finally:
        if main:
            signal.setitimer(signal.ITIMER_REAL, 0)
            signal.signal(signal.SIGALRM, old_h)
            if old_t and old_t[0] > 0:  # an enclosing time limit keeps running
                signal.setitimer(signal.ITIMER_REAL, max(0.01, old_t[0] - (time.time() - t0)), old_t[1])
    return verdict


def unprintable_node(e) -> str:
    """'re' / 'ComplexInfinity' from `Unsupported by <class '...Printer'>: re`, '' when the message has another form"""
    import re as _re

    m = _re.search(r"Unsupported by <class '[^']*'>:\s*(.+)", str(e).split("\n")[0])
    if not m:
        return ""
    node = m.group(1).strip()
    c = _re.match(r"<class '([\w.]+)'>", node)
    if c:
        node = c.group(1).split(".")[-1]
    return _re.sub(r"[^A-Za-z0-9_]+", "-", node.split("|")[0].strip())[:40]


def codegen_exception_class(e, exprs=None, ref=None) -> str:
    """suffix naming the LISTED mechanism behind an exception raised while generating / saving code, '' when none applies:
    at a `_print_Piecewise` site ':piecewise-collapses-under-simplify' when piecewise_collapses(exprs); an AttributeError whose message
    names a sympy Boolean for a text that uses a relational / logical value as a number ':boolean-used-arithmetically'; a
    PrintMethodNotImplementedError ':unprintable-<node>'; an AttributeError at `_hprint_Pow` ':<message key>'."""
    site = exc_site(e)
    if "_print_Piecewise" in site and exprs is not None and piecewise_collapses(exprs):
        return PW_COLLAPSES
    if isinstance(e, AttributeError) and "Boolean" in str(e):
        try:
            if ref is not None and ref.boolean_used_arithmetically():
                return ":boolean-used-arithmetically"
        except Exception:  # noqa: BLE001
            pass
    if type(e).__name__ == "PrintMethodNotImplementedError":
        node = unprintable_node(e)
        return f":unprintable-{node}" if node else ""
    if isinstance(e, AttributeError) and site.endswith("@_hprint_Pow"):
        return ":" + msg_key(e)
    return ""
