"""Seeded generator of small gotranx .ode model texts + an independent reference evaluator.

Nothing in this file imports gotranx or sympy.  The reference meaning of a model text is
obtained by (1) a line/block parser for the .ode format (`RefModel`), (2) a recursive
descent parser for expressions (`parse_expr`) following the documented semantics (Python
precedence, `**` right associative and binding tighter than a unary sign on its left,
Conditional(c,a,b), ContinuousConditional per the sympytools docstring, Mod = Python float
%, floor = math.floor) and (3) a float evaluator `ev` which also works on forward-mode
dual numbers (`Dual`) so that d(expr)/d(var) is available without any symbolic package.
"""
from __future__ import annotations

import math
import random
import re
from dataclasses import dataclass, field

# --------------------------------------------------------------------------------------
# Expression parser (text -> tuple AST)
# --------------------------------------------------------------------------------------
_TOK = re.compile(
    r"\s*(?:(?P<num>(?:\d+\.\d*|\.\d+|\d+)(?:[eE][+-]?\d+)?)|(?P<name>[A-Za-z_]\w*)|(?P<op>\*\*|[-+*/(),~]))"
)
FUNCS1 = ("exp", "log", "ln", "sqrt", "sin", "cos", "tan", "asin", "acos", "atan", "abs", "Abs", "floor")
RELS = ("Lt", "Gt", "Le", "Ge", "Eq")
CALLS = set(FUNCS1) | {"Mod", "Conditional", "ContinuousConditional", "Not", "And", "Or"} | set(RELS)


class RefError(Exception):
    """Raised when the reference cannot give a value (domain error, overflow, cycle...)."""


def tokenize(s: str):
    out, pos = [], 0
    s = s.rstrip()
    while pos < len(s):
        m = _TOK.match(s, pos)
        if not m:
            raise RefError(f"cannot tokenize {s[pos:pos+20]!r}")
        pos = m.end()
        if m.group("num") is not None:
            out.append(("num", m.group("num")))
        elif m.group("name") is not None:
            out.append(("name", m.group("name")))
        else:
            out.append(("op", m.group("op")))
    return out


class _P:
    def __init__(self, toks):
        self.t, self.i = toks, 0

    def peek(self):
        return self.t[self.i] if self.i < len(self.t) else ("end", "")

    def eat(self, kind=None, val=None):
        tok = self.peek()
        if (kind and tok[0] != kind) or (val is not None and tok[1] != val):
            raise RefError(f"expected {val or kind}, got {tok}")
        self.i += 1
        return tok

    def expression(self):
        a = self.term()
        while self.peek() in (("op", "+"), ("op", "-")):
            op = self.eat()[1]
            a = ("bin", op, a, self.term())
        return a

    def term(self):
        a = self.factor()
        while self.peek() in (("op", "*"), ("op", "/")):
            op = self.eat()[1]
            a = ("bin", op, a, self.factor())
        return a

    def factor(self):
        if self.peek() in (("op", "+"), ("op", "-")):
            op = self.eat()[1]
            return ("un", op, self.factor())
        return self.power()

    def power(self):
        a = self.atom()
        if self.peek() == ("op", "**"):
            self.eat()
            return ("bin", "**", a, self.factor())
        return a

    def atom(self):
        k, v = self.peek()
        if k == "num":
            self.eat()
            return ("num", v)
        if k == "op" and v == "(":
            self.eat()
            e = self.expression()
            self.eat("op", ")")
            return ("par", e)
        if k == "name":
            self.eat()
            if self.peek() == ("op", "(") and v in CALLS:
                self.eat()
                args = [self.expression()]
                while self.peek() == ("op", ","):
                    self.eat()
                    if self.peek() == ("op", ")"):
                        break
                    args.append(self.expression())
                self.eat("op", ")")
                return ("call", v, tuple(args))
            if v == "pi":
                return ("pi",)
            return ("var", v)
        raise RefError(f"unexpected token {k} {v!r}")


def parse_expr(text: str):
    p = _P(tokenize(text))
    e = p.expression()
    if p.peek()[0] != "end":
        raise RefError(f"trailing tokens in {text!r}")
    return e


def expr_vars(node, acc=None) -> set:
    acc = set() if acc is None else acc
    k = node[0]
    if k == "var":
        acc.add(node[1])
    elif k in ("un",):
        expr_vars(node[2], acc)
    elif k == "par":
        expr_vars(node[1], acc)
    elif k == "bin":
        expr_vars(node[2], acc)
        expr_vars(node[3], acc)
    elif k == "call":
        for a in node[2]:
            expr_vars(a, acc)
    return acc


def expr_calls(node, acc=None) -> list:
    """All call names / operators used (feature inventory)."""
    acc = [] if acc is None else acc
    k = node[0]
    if k == "un":
        acc.append("un" + node[1])
        expr_calls(node[2], acc)
    elif k == "par":
        expr_calls(node[1], acc)
    elif k == "bin":
        acc.append(node[1])
        expr_calls(node[2], acc)
        expr_calls(node[3], acc)
    elif k == "call":
        acc.append(node[1] + (str(len(node[2])) if node[1] in ("And", "Or") else ""))
        for a in node[2]:
            expr_calls(a, acc)
    elif k == "pi":
        acc.append("pi")
    return acc


def expr_depth(node) -> int:
    k = node[0]
    if k in ("num", "var", "pi"):
        return 0
    if k == "un":
        return 1 + expr_depth(node[2])
    if k == "par":
        return expr_depth(node[1])
    if k == "bin":
        return 1 + max(expr_depth(node[2]), expr_depth(node[3]))
    return 1 + max(expr_depth(a) for a in node[2])


# --------------------------------------------------------------------------------------
# Territory analyses: which KNOWN defect classes of the library an expression can touch.
# General (non-probe) models of the oracles are generated / filtered so that they touch none;
# the classes are exercised by dedicated probe models with dedicated signatures.
# --------------------------------------------------------------------------------------
TRIG = ("sin", "cos", "tan")
BOOL_CALLS = ("Lt", "Gt", "Le", "Ge", "Eq", "Not", "And", "Or")


def _children(node):
    k = node[0]
    if k == "un":
        return (node[2],)
    if k == "par":
        return (node[1],)
    if k == "bin":
        return (node[2], node[3])
    if k == "call":
        return tuple(node[2])
    return ()


def _contains(node, pred) -> bool:
    return pred(node) or any(_contains(c, pred) for c in _children(node))


def boolean_valued(node, bool_names=()) -> bool:
    """a relational / logical call (possibly in parentheses) or a name bound to one"""
    while node[0] == "par":
        node = node[1]
    return (node[0] == "call" and node[1] in BOOL_CALLS) or (node[0] == "var" and node[1] in bool_names)


def boolean_in_arithmetic(node, bool_names=()) -> bool:
    """a relational / logical value used as a NUMBER: operand of + - * / ** or of a unary sign, or argument of a numeric function
    (`2 + Eq(2, 1e-1)`, `Ge(0.4 + u, u)*u`, `-(Lt(time, -12.5)*tau)`).  sympy folds such a relational to BooleanTrue / BooleanFalse when it is
    decidable (and NumPy computes with Python / NumPy booleans and integers): territory of the listed boolean-used-arithmetically findings"""
    k = node[0]
    if k in ("bin", "un") and any(boolean_valued(c, bool_names) for c in _children(node)):
        return True
    if k == "call" and node[1] not in BOOL_CALLS:
        args = node[2][1:] if node[1] in ("Conditional", "ContinuousConditional") else node[2]
        if any(boolean_valued(c, bool_names) for c in args):
            return True
    return any(boolean_in_arithmetic(c, bool_names) for c in _children(node))


def pi_in_trig(node) -> bool:
    """`pi` anywhere inside the argument of sin / cos / tan (sympy evaluates trigonometric functions of an
    unevaluated sum containing pi and drops terms: cos(2 - pi + 2) -> -cos(2))"""
    if node[0] == "call" and node[1] in TRIG and any(_contains(a, lambda n: n[0] == "pi") for a in node[2]):
        return True
    return any(pi_in_trig(c) for c in _children(node))


def _c_int(node) -> bool:
    """the C expression printed for this node has type int (integer literals, comparisons, ternaries of ints)"""
    k = node[0]
    if k == "num":
        return re.fullmatch(r"\d+", node[1]) is not None
    if k == "par":
        return _c_int(node[1])
    if k == "un":
        return _c_int(node[2])
    if k == "bin":
        return node[1] in "+-*/" and _c_int(node[2]) and _c_int(node[3])
    if k == "call":
        if node[1] in BOOL_CALLS:
            return True
        if node[1] == "Conditional" and len(node[2]) == 3:
            return _c_int(node[2][1]) and _c_int(node[2][2])
        if node[1] in ("abs", "Abs", "Mod"):
            return all(_c_int(a) for a in node[2])
    return False


def _int_valued(node) -> bool:
    """sympy knows the value is an integer (then abs prints as C `abs`, Mod as `%`)"""
    k = node[0]
    if k == "num":
        return re.fullmatch(r"\d+", node[1]) is not None
    if k == "par":
        return _int_valued(node[1])
    if k == "un":
        return _int_valued(node[2])
    if k == "bin":
        if node[1] in "+-*":
            return _int_valued(node[2]) and _int_valued(node[3])
        return node[1] == "**" and _int_valued(node[2]) and node[3][0] == "num" and re.fullmatch(r"\d+", node[3][1]) is not None
    if k == "call":
        if node[1] == "floor":
            return True
        if node[1] in ("abs", "Abs", "Mod"):
            return all(_int_valued(a) for a in node[2])
        if node[1] == "Conditional" and len(node[2]) == 3:
            return _int_valued(node[2][1]) and _int_valued(node[2][2])
    return False


def _syn_nonneg(node, strict=False) -> bool:
    """syntactically >= 0 (strict: > 0) whatever the values of the names"""
    k = node[0]
    if k == "num":
        return float(node[1]) > 0 or (not strict and float(node[1]) == 0)
    if k == "pi":
        return True
    if k == "par":
        return _syn_nonneg(node[1], strict)
    if k == "un":
        return node[1] == "+" and _syn_nonneg(node[2], strict)
    if k == "bin":
        a, b = node[2], node[3]
        if node[1] == "+":
            return (_syn_nonneg(a, strict) and _syn_nonneg(b)) or (_syn_nonneg(a) and _syn_nonneg(b, strict))
        if node[1] in "*/":
            return _syn_nonneg(a, strict) and _syn_nonneg(b, strict or node[1] == "/")
        if node[1] == "**":
            if _syn_nonneg(a, strict):
                return True
            return not strict and b[0] == "num" and re.fullmatch(r"\d*[02468](\.0*)?", b[1]) is not None
        return False
    if k == "call":
        if node[1] in ("abs", "Abs"):
            return not strict
        if node[1] == "exp":
            return True
        if node[1] == "sqrt":
            return not strict or _syn_nonneg(node[2][0], True)
    return False


# the classes that are still listed findings; int-abs, int-mod and mod-sign were repaired in gotranx (fix: commits 5320084, 4ec0b8d):
# a mismatch on such a model is an ordinary violation again
C_CLASSES_STILL_KNOWN = {"int-quotient"}


def c_unsafe(node) -> set:
    """classes of KNOWN C-backend defects the expression can touch: 'int-quotient' (a quotient whose two operands are
    C ints: integer literals, comparisons, ternaries of ints), 'int-abs' (abs of something containing floor: printed as the
    C int `abs`), 'int-mod' (Mod of two integer-valued operands: printed as `%` on doubles), 'mod-sign' (Mod whose
    operands are not syntactically positive: C fmod keeps the sign of the dividend)"""
    out = set()
    k = node[0]
    if k == "bin" and node[1] == "/" and _c_int(node[2]) and _c_int(node[3]):
        out.add("int-quotient")
    if k == "call" and node[1] in ("abs", "Abs") and any(_contains(a, lambda n: n[0] == "call" and n[1] == "floor") for a in node[2]):
        out.add("int-abs")
    if k == "call" and node[1] == "Mod" and len(node[2]) == 2:
        if _int_valued(node[2][0]) and _int_valued(node[2][1]):
            out.add("int-mod")
        if not (_syn_nonneg(node[2][0]) and _syn_nonneg(node[2][1], True)):
            out.add("mod-sign")
    for c in _children(node):
        out |= c_unsafe(c)
    return out


def _rewrite(text: str, fn) -> str:
    """rebuild an expression text token by token: fn(kind, value, previous tokens) -> replacement"""
    out, pos, prev = [], 0, []
    while pos < len(text):
        m = _TOK.match(text, pos)
        if not m:
            out.append(text[pos:])
            break
        kind = m.lastgroup
        out.append(text[pos:m.start(kind)])
        out.append(fn(kind, m.group(kind), prev))
        prev.append((kind, m.group(kind)))
        pos = m.end()
    return "".join(out)


def floatify(text: str) -> str:
    """every integer literal written as a float (7 / 2 -> 7.0 / 2.0) except a literal exponent (x**2, x**-1)"""
    def fn(kind, val, prev):
        if kind != "num" or not re.fullmatch(r"\d+", val):
            return val
        if prev and prev[-1] == ("op", "**"):
            return val
        if len(prev) >= 2 and prev[-2] == ("op", "**") and prev[-1] in (("op", "-"), ("op", "+")):
            return val
        return val + ".0"

    return _rewrite(text, fn)


def no_pi_in_trig(text: str) -> str:
    """`pi` inside the argument of sin / cos / tan replaced by the literal 3.14"""
    st = {"depth": 0, "open": []}

    def fn(kind, val, prev):
        if kind == "op" and val == "(":
            st["depth"] += 1
            if prev and prev[-1][0] == "name" and prev[-1][1] in TRIG:
                st["open"].append(st["depth"])
        elif kind == "op" and val == ")":
            if st["open"] and st["open"][-1] == st["depth"]:
                st["open"].pop()
            st["depth"] -= 1
        elif kind == "name" and val == "pi" and st["open"]:
            return "3.14"
        return val

    return _rewrite(text, fn)


# --------------------------------------------------------------------------------------
# Dual numbers (forward mode AD) and evaluation
# --------------------------------------------------------------------------------------
class Dual:
    __slots__ = ("v", "d")

    def __init__(self, v, d=0.0):
        self.v, self.d = float(v), float(d)

    def __repr__(self):
        return f"Dual({self.v}, {self.d})"


def _val(x):
    return x.v if isinstance(x, Dual) else x


def _der(x):
    return x.d if isinstance(x, Dual) else 0.0


def _mk(v, d, *src):
    if isinstance(v, complex):
        raise RefError("complex")
    if any(isinstance(s, Dual) for s in src):
        return Dual(v, d)
    return v


def _num(x):
    """bool/number -> float-like (relational_to_piecewise)."""
    if isinstance(x, bool):
        return 1.0 if x else 0.0
    return x


def _truth(x):
    if isinstance(x, bool):
        return x
    return _val(x) != 0


class Ctx:
    """Evaluation context: variable lookup + fragility tracking + switches used to emulate
    hypothesised defects (to *classify* an observed mismatch, never to excuse it)."""

    def __init__(self, lookup, int_div=False, c_fmod=False, frag_tol=1e-9, strict_rel=False):
        self.lookup = lookup
        self.fragile = False
        self.maxabs = 0.0  # largest operand of an addition / subtraction / Mod / trigonometric function (absolute-error scale)
        self.flags = set()  # facts about the evaluation an oracle may want to know ("mod-negative-operand")
        self.int_div = int_div  # C semantics for integer-literal quotients
        self.c_fmod = c_fmod  # C fmod sign
        self.strict_rel = strict_rel  # Ge / Le read as Gt / Lt (what sympy.simplify makes of a non-strict relational with a float bound)
        self.inputs = None  # names whose values are given (states, parameters, t): everything else is computed; None = unknown
        self.frag_tol = frag_tol

    def near(self, a, b, simple):
        if simple:
            return
        a, b = _val(a), _val(b)
        if abs(a - b) <= self.frag_tol * (abs(a) + abs(b) + 1e-300) and not (a == b == 0):
            self.fragile = True


def _exact(node, ctx):
    """a syntactically simple operand whose variables are all inputs (a plain intermediate name is simple to look at, but its value is computed)"""
    if not _simple(node):
        return False
    if ctx.inputs is None:
        return True
    return not _contains(node, lambda n: n[0] == "var" and n[1] not in ctx.inputs and n[1] not in ("t", "time"))


def _simple(node):
    k = node[0]
    if k in ("num", "var", "pi"):
        return True
    if k == "par":
        return _simple(node[1])
    if k == "un":
        return _simple(node[2])
    return False


def _is_intlit(node):
    while node[0] == "par":
        node = node[1]
    if node[0] == "un":
        return _is_intlit(node[2])
    return node[0] == "num" and re.fullmatch(r"\d+", node[1]) is not None


def _int_const(node):
    """value of a subtree made only of integer literals under C int arithmetic (+ - * / abs, unary
    signs), or None.  Division by zero -> RefError (the C program traps)."""
    k = node[0]
    if k == "num":
        return int(node[1]) if re.fullmatch(r"\d+", node[1]) else None
    if k == "par":
        return _int_const(node[1])
    if k == "un":
        v = _int_const(node[2])
        return None if v is None else (-v if node[1] == "-" else v)
    if k == "bin" and node[1] in "+-*/":
        a, b = _int_const(node[2]), _int_const(node[3])
        if a is None or b is None:
            return None
        if node[1] == "/":
            if b == 0:
                raise RefError("C integer division by zero")
            return int(a / b)
        return a + b if node[1] == "+" else a - b if node[1] == "-" else a * b
    if k == "call" and node[1] in ("abs", "Abs") and len(node[2]) == 1:
        v = _int_const(node[2][0])
        return None if v is None else abs(v)
    return None


def ev(node, ctx: Ctx):
    k = node[0]
    if ctx.int_div and k in ("bin", "par", "un", "call"):
        iv = _int_const(node)
        if iv is not None:
            return float(iv)
    if k == "num":
        return float(node[1])
    if k == "pi":
        return math.pi
    if k == "var":
        return ctx.lookup(node[1])
    if k == "par":
        return ev(node[1], ctx)
    if k == "un":
        a = _num(ev(node[2], ctx))
        if node[1] == "+":
            return a
        return _mk(-_val(a), -_der(a), a)
    try:
        if k == "bin":
            return _bin(node, ctx)
        return _call(node, ctx)
    except (ValueError, ZeroDivisionError, OverflowError) as e:
        raise RefError(f"{type(e).__name__}: {e}") from None


def _bin(node, ctx):
    op = node[1]
    a = _num(ev(node[2], ctx))
    b = _num(ev(node[3], ctx))
    av, bv, ad, bd = _val(a), _val(b), _der(a), _der(b)
    if op in "+-":
        ctx.maxabs = max(ctx.maxabs, abs(av), abs(bv))
    if op == "+":
        return _mk(av + bv, ad + bd, a, b)
    if op == "-":
        return _mk(av - bv, ad - bd, a, b)
    if op == "*":
        return _mk(av * bv, ad * bv + av * bd, a, b)
    if op == "/":
        if ctx.int_div and _c_int(node[2]) and _c_int(node[3]):  # both operands are C ints (literals, comparisons, ternaries of ints)
            return float(int(av / bv))
        return _mk(av / bv, (ad * bv - av * bd) / (bv * bv), a, b)
    if op == "**":
        if ctx.int_div and _is_intlit(node[2]) and _is_intlit(node[3]) and bv < 0:
            return float(int(av**bv))
        r = av**bv
        if isinstance(r, complex):
            raise RefError("complex power")
        d = 0.0
        if isinstance(a, Dual) or isinstance(b, Dual):
            if ad != 0.0:
                d += bv * av ** (bv - 1) * ad
            if bd != 0.0:
                d += r * math.log(av) * bd
            if isinstance(d, complex):
                raise RefError("complex power")
        return _mk(r, d, a, b)
    raise RefError(f"bad operator {op}")


_D1 = {
    "exp": (math.exp, lambda x, f: f),
    "log": (math.log, lambda x, f: 1 / x),
    "ln": (math.log, lambda x, f: 1 / x),
    "sqrt": (math.sqrt, lambda x, f: 0.5 / f),
    "sin": (math.sin, lambda x, f: math.cos(x)),
    "cos": (math.cos, lambda x, f: -math.sin(x)),
    "tan": (math.tan, lambda x, f: 1 + f * f),
    "asin": (math.asin, lambda x, f: 1 / math.sqrt(1 - x * x)),
    "acos": (math.acos, lambda x, f: -1 / math.sqrt(1 - x * x)),
    "atan": (math.atan, lambda x, f: 1 / (1 + x * x)),
    "abs": (abs, lambda x, f: (x > 0) - (x < 0)),
    "Abs": (abs, lambda x, f: (x > 0) - (x < 0)),
    "floor": (lambda x: float(math.floor(x)), lambda x, f: 0.0),
}


def _call(node, ctx):
    name, args = node[1], node[2]
    if name in _D1:
        if len(args) != 1:
            raise RefError(f"{name} with {len(args)} arguments is outside the reference")
        a = _num(ev(args[0], ctx))
        x = _val(a)
        if ctx.c_fmod and name in ("abs", "Abs"):  # sympy drops the abs of a Mod (non-negative by definition); C fmod is not
            inner = args[0]
            while inner[0] == "par":
                inner = inner[1]
            if inner[0] == "call" and inner[1] == "Mod":
                return a
        if name == "floor":
            ctx.near(x, round(x), _exact(args[0], ctx))
            # a computed argument within rounding distance of an integer - including 0, where a relative test sees nothing: the two sides
            # of the jump are both "the value to within float64 rounding" (cos(acos(0)) is 6e-17, symbolically it is 0)
            if not _exact(args[0], ctx) and abs(x - round(x)) <= 1e-9 * (1.0 + ctx.maxabs):
                ctx.fragile = True
        if name in ("abs", "Abs") and isinstance(a, Dual):
            ctx.near(x, 0.0, False)
        if name in ("sin", "cos", "tan"):  # |f'| is O(1): the rounding of the argument becomes an absolute error of the result
            ctx.maxabs = max(ctx.maxabs, abs(x))
        if name in ("asin", "acos") and abs(abs(x) - 1.0) <= 1e-9:  # edge of the real domain, infinite slope
            ctx.fragile = True
        if name in ("sqrt", "log", "ln") and 0.0 < abs(x) <= 1e-9 * ctx.maxabs and not _simple(args[0]):
            ctx.fragile = True  # the argument is a cancellation residue: its sign / size is rounding noise
        f, df = _D1[name]
        r = f(x)
        if name in ("asin", "acos", "atan"):
            ctx.maxabs = max(ctx.maxabs, abs(r))
        return _mk(r, df(x, r) * _der(a) if isinstance(a, Dual) else 0.0, a)
    if name == "Mod":
        a = _num(ev(args[0], ctx))
        b = _num(ev(args[1], ctx))
        av, bv = _val(a), _val(b)
        q = av / bv
        ctx.maxabs = max(ctx.maxabs, abs(av))
        ctx.near(q, round(q), _exact(args[0], ctx) and _exact(args[1], ctx))
        if not (_exact(args[0], ctx) and _exact(args[1], ctx)) and abs(q - round(q)) * abs(bv) <= 1e-9 * (1.0 + ctx.maxabs + abs(bv)):
            ctx.fragile = True  # a computed dividend within rounding distance of a multiple of the divisor (log(exp(4e-76)) is 0.0 in floats)
        if av < 0 or bv < 0:
            ctx.flags.add("mod-negative-operand")
        if ctx.c_fmod:
            return math.fmod(av, bv)
        r = av % bv
        return _mk(r, _der(a) - math.floor(q) * _der(b), a, b)
    if name in RELS:
        a = _num(ev(args[0], ctx))
        b = _num(ev(args[1], ctx))
        ctx.near(a, b, _exact(args[0], ctx) and _exact(args[1], ctx))  # a plain intermediate name is a computed value, not an exact operand
        a, b = _val(a), _val(b)
        if ctx.strict_rel:
            return {"Lt": a < b, "Gt": a > b, "Le": a < b, "Ge": a > b, "Eq": a == b}[name]
        return {"Lt": a < b, "Gt": a > b, "Le": a <= b, "Ge": a >= b, "Eq": a == b}[name]
    if name == "Not":
        return not _truth(ev(args[0], ctx))
    if name == "And":
        return all([_truth(ev(a, ctx)) for a in args])
    if name == "Or":
        return any([_truth(ev(a, ctx)) for a in args])
    if name == "Conditional":
        c = _truth(ev(args[0], ctx))
        return _num(ev(args[1] if c else args[2], ctx))
    if name == "ContinuousConditional":
        rel = args[0]
        while rel[0] == "par":
            rel = rel[1]
        if rel[0] != "call" or rel[1] not in ("Lt", "Gt", "Le", "Ge") or len(args) != 4:
            raise RefError("ContinuousConditional form outside the reference")
        a = _num(ev(rel[2][0], ctx))
        b = _num(ev(rel[2][1], ctx))
        tv = _num(ev(args[1], ctx))
        fv = _num(ev(args[2], ctx))
        sg = _num(ev(args[3], ctx))
        z = _div(_sub(a, b), sg)  # H = 1/(1+exp((a-b)/sigma))
        e = _mk(math.exp(_val(z)), math.exp(_val(z)) * _der(z), z)
        H = _div(1.0, _add(1.0, e))
        one_minus = _sub(1.0, H)
        if rel[1] in ("Gt", "Ge"):
            return _add(_mul(tv, one_minus), _mul(fv, H))
        return _add(_mul(tv, H), _mul(fv, one_minus))
    raise RefError(f"unknown function {name}")


def _add(a, b):
    return _mk(_val(a) + _val(b), _der(a) + _der(b), a, b)


def _sub(a, b):
    return _mk(_val(a) - _val(b), _der(a) - _der(b), a, b)


def _mul(a, b):
    return _mk(_val(a) * _val(b), _der(a) * _val(b) + _val(a) * _der(b), a, b)


def _div(a, b):
    av, bv = _val(a), _val(b)
    return _mk(av / bv, (_der(a) * bv - av * _der(b)) / (bv * bv), a, b)



# --------------------------------------------------------------------------------------
# .ode text parser (independent of lark)
# --------------------------------------------------------------------------------------
@dataclass
class Decl:
    name: str
    expr_text: str
    comps: tuple
    unit: str | None = None
    desc: str | None = None
    value: float = 0.0


@dataclass
class Assign:
    name: str
    expr_text: str
    comps: tuple
    trailing: str | None = None
    ast: tuple = ()
    deps: frozenset = frozenset()


def _split_top(s: str, sep=","):
    out, depth, cur, q = [], 0, [], None
    for ch in s:
        if q:
            cur.append(ch)
            if ch == q:
                q = None
            continue
        if ch in "\"'":
            q = ch
            cur.append(ch)
        elif ch == "(":
            depth += 1
            cur.append(ch)
        elif ch == ")":
            depth -= 1
            cur.append(ch)
        elif ch == sep and depth == 0:
            out.append("".join(cur))
            cur = []
        else:
            cur.append(ch)
    out.append("".join(cur))
    return out


def _strip_comment(line: str):
    """split a line at the first # outside quotes -> (code, comment|None)"""
    q = None
    for i, ch in enumerate(line):
        if q:
            if ch == q:
                q = None
        elif ch in "\"'":
            q = ch
        elif ch == "#":
            return line[:i], line[i + 1 :].strip()
    return line, None


_HEAD = re.compile(r"^\s*(states|parameters|expressions|component)\s*\(")
_ASSIGN = re.compile(r"^\s*([A-Za-z_]\w*)\s*=(.*)$", re.S)
_SCALAR = re.compile(r"^\s*ScalarParam\s*\((.*)\)\s*$", re.S)


class RefModel:
    """Reference reading of a model text: declarations, assignments, component membership."""

    def __init__(self, text: str):
        self.text = text
        self.states: dict[str, Decl] = {}
        self.params: dict[str, Decl] = {}
        self.assigns: dict[str, Assign] = {}
        self.order: list[str] = []
        self._parse(text)
        self.state_names = list(self.states)
        self.param_names = list(self.params)
        self.deriv_names = [n for n in self.assigns if self._is_deriv(n)]
        self.inter_names = [n for n in self.assigns if not self._is_deriv(n)]

    def _is_deriv(self, n):
        m = re.fullmatch(r"d(\w+)_dt", n)
        return bool(m and m.group(1) in self.states)

    # -- parsing -------------------------------------------------------------------
    def _parse(self, text):
        lines = text.replace("\r\n", "\n").replace("\r", "\n").split("\n")
        cur_comp = ("",)
        i = 0
        while i < len(lines):
            code, _ = _strip_comment(lines[i])
            if not code.strip():
                i += 1
                continue
            # gather continuation lines until parentheses balance
            buf, trailing = code, _strip_comment(lines[i])[1]
            while _depth(buf) > 0 and i + 1 < len(lines):
                i += 1
                c2, t2 = _strip_comment(lines[i])
                buf += "\n" + c2
                trailing = t2 if t2 is not None else trailing
            i += 1
            m = _HEAD.match(buf)
            if m:
                kind = m.group(1)
                inner = buf[m.end() : buf.rindex(")")]
                parts = [p.strip() for p in _split_top(inner) if p.strip()]
                comps = []
                while parts and re.fullmatch(r"\"[^\"]*\"|'[^']*'", parts[0]):
                    comps.append(parts.pop(0)[1:-1])
                comps = tuple(comps) or ("",)
                if kind in ("expressions", "component"):
                    cur_comp = comps
                    rest = buf[buf.rindex(")") + 1 :].strip()
                    if rest:
                        raise RefError("text after expressions(...) header")
                    continue
                cur_comp = ("",)
                for p in parts:
                    am = _ASSIGN.match(p)
                    if not am:
                        raise RefError(f"bad declaration {p!r}")
                    name, rhs = am.group(1), am.group(2).strip()
                    unit = desc = None
                    sm = _SCALAR.match(rhs)
                    if sm:
                        sp = _split_top(sm.group(1))
                        rhs = sp[0].strip()
                        for kw in sp[1:]:
                            k, _, v = kw.partition("=")
                            v = v.strip()[1:-1]
                            if k.strip() == "unit":
                                unit = v
                            elif k.strip() == "description":
                                desc = v
                    d = Decl(name, rhs, comps, unit, desc)
                    d.value = float(_num(ev(parse_expr(rhs), Ctx(_no_lookup))))
                    (self.states if kind == "states" else self.params)[name] = d
                continue
            am = _ASSIGN.match(buf)
            if not am:
                raise RefError(f"cannot read line {buf!r}")
            name, rhs = am.group(1), " ".join(am.group(2).split())
            ast = parse_expr(rhs)
            self.assigns[name] = Assign(name, rhs, cur_comp, trailing, ast, frozenset(expr_vars(ast)))
            self.order.append(name)

    # -- evaluation ----------------------------------------------------------------
    def evaluate(self, t, states: dict, params: dict, extra: dict | None = None, names=None, **sw):
        """-> (values {assignment name: float}, fragile flag). Raises RefError when undefined."""
        memo: dict = {}
        busy: set = set()
        base = dict(params)
        base.update(states)
        if extra:
            base.update(extra)

        def lookup(n):
            if n in ("t", "time"):
                return t
            if n in base:
                return base[n]
            if n in memo:
                return memo[n]
            if n not in self.assigns:
                raise RefError(f"undefined symbol {n}")
            if n in busy:
                raise RefError(f"cycle through {n}")
            busy.add(n)
            v = _num(ev(self.assigns[n].ast, ctx))
            busy.discard(n)
            memo[n] = v
            return v

        ctx = Ctx(lookup, **sw)
        ctx.inputs = set(base)
        out = {}
        for n in names if names is not None else self.assigns:
            v = lookup(n)
            v = _val(v)
            if isinstance(v, complex) or not math.isfinite(v):
                raise RefError(f"{n} not finite")
            out[n] = v
        self.last_maxabs = ctx.maxabs
        self.last_flags = set(ctx.flags)
        return out, ctx.fragile

    def nonsmooth_of_own_state(self, state, funcs=("floor", "Mod", "ceil", "ceiling")) -> bool:
        """does d<state>_dt (through the intermediates it uses) apply floor / Mod to something that depends on the state itself?
        (sympy's derivative of such a rate contains Derivative / Subs nodes that no printer knows)"""
        seen = set()

        def depends(node) -> bool:
            if node[0] == "var":
                if node[1] == state:
                    return True
                if node[1] in self.assigns and node[1] not in seen:
                    seen.add(node[1])
                    r = depends(self.assigns[node[1]].ast)
                    seen.discard(node[1])
                    return r
                return False
            return any(depends(c_) for c_ in _children(node))

        visited = set()

        def walk(node) -> bool:
            if node[0] == "call" and node[1] in funcs and any(depends(a) for a in node[2]):
                return True
            if node[0] == "var" and node[1] in self.assigns and node[1] not in visited:
                visited.add(node[1])
                if walk(self.assigns[node[1]].ast):
                    return True
            return any(walk(c_) for c_ in _children(node))

        try:
            return walk(self.assigns[f"d{state}_dt"].ast)
        except Exception:  # noqa: BLE001
            return False

    def trig_inside_relational(self, names=None) -> bool:
        """does an assignment (of `names` and what they depend on; default: any) compare a sin / cos / tan of something with something?
        (sympy.simplify "solves" such an inequality for the innermost symbol over ONE period: cos(t) <= 0.25 becomes
        1.318 <= t <= 2 pi - 1.318)"""
        todo, seen = list(names if names is not None else self.assigns), set()
        while todo:
            n = todo.pop()
            if n in seen or n not in self.assigns:
                continue
            seen.add(n)
            a = self.assigns[n]
            if _contains(a.ast, lambda nd: nd[0] == "call" and nd[1] in ("Lt", "Gt", "Le", "Ge")
                         and any(_contains(x, lambda y: y[0] == "call" and y[1] in ("sin", "cos", "tan")) for x in nd[2])):
                return True
            todo.extend(a.deps)
        return False

    def zero_power_base(self, name, t, states: dict, params: dict) -> bool:
        """does the expression of `name` (through the intermediates it uses) contain a power whose base evaluates to exactly 0 at this
        point?  (sympy differentiates b**e as b**e * (e' log b + e b'/b): 0 * inf at such a point)"""
        vals, _ = self.evaluate(t, states, params)
        base = dict(params)
        base.update(states)

        def lookup(n):
            if n in ("t", "time"):
                return t
            if n in base:
                return base[n]
            return vals[n]

        seen = set()

        def walk(node):
            if node[0] == "bin" and node[1] == "**":
                try:
                    if _val(_num(ev(node[2], Ctx(lookup)))) == 0:
                        return True
                except Exception:  # noqa: BLE001
                    pass
            if node[0] == "var" and node[1] in self.assigns and node[1] not in seen:
                seen.add(node[1])
                if walk(self.assigns[node[1]].ast):
                    return True
            return any(walk(c_) for c_ in _children(node))

        try:
            return walk(self.assigns[name].ast)
        except Exception:  # noqa: BLE001
            return False

    def rhs(self, t, states, params, **sw):
        vals, frag = self.evaluate(t, states, params, **sw)
        return {s: vals[f"d{s}_dt"] for s in self.states}, frag

    def own_derivative(self, state, t, states: dict, params: dict, total=False):
        """(f, g) for d<state>_dt: g = d f / d state.  total=False: the rate *expression* is
        differentiated with every other name (including intermediates) held fixed;
        total=True: through all intermediates."""
        vals, frag = self.evaluate(t, states, params)
        dn = f"d{state}_dt"
        memo: dict = {}

        def lookup(n):
            if n in ("t", "time"):
                return t
            if n == state:
                return Dual(states[n], 1.0)
            if n in states:
                return states[n]
            if n in params:
                return params[n]
            if not total:
                return vals[n]
            if n not in memo:
                memo[n] = _num(ev(self.assigns[n].ast, ctx))
            return memo[n]

        ctx = Ctx(lookup)
        r = _num(ev(self.assigns[dn].ast, ctx))
        return _val(r), _der(r), (frag or ctx.fragile)

    # -- structure -------------------------------------------------------------------
    def closure(self, name) -> set:
        """assignment names reachable from `name` (inclusive)."""
        seen, todo = set(), [name]
        while todo:
            n = todo.pop()
            if n in seen or n not in self.assigns:
                continue
            seen.add(n)
            todo.extend(self.assigns[n].deps)
        return seen

    def used_names(self) -> set:
        used = set()
        for d in self.deriv_names:
            for n in self.closure(d):
                used.add(n)
                used |= set(self.assigns[n].deps)
        return used

    def features(self) -> set:
        f = set()
        for a in self.assigns.values():
            f.update(expr_calls(a.ast))
        return f

    def max_depth(self) -> int:
        return max([expr_depth(a.ast) for a in self.assigns.values()] + [0])

    def has_pi_in_trig(self) -> bool:
        return any(pi_in_trig(a.ast) for a in self.assigns.values())

    def boolean_used_arithmetically(self, names=None) -> bool:
        """does an assignment (of `names` and what they depend on; default: any) use a relational / logical value as a number, directly or
        through an intermediate that is bound to one (see boolean_in_arithmetic)"""
        bool_names = set()
        for _ in range(len(self.assigns) + 1):
            more = {n for n, a in self.assigns.items() if boolean_valued(a.ast, bool_names)} - bool_names
            if not more:
                break
            bool_names |= more
        todo = set(self.assigns)
        if names is not None:
            todo = set()
            for n in names:
                if n in self.assigns:
                    todo |= self.closure(n)
        return any(boolean_in_arithmetic(self.assigns[n].ast, bool_names) for n in todo if n in self.assigns)

    def pi_reaches_trig(self) -> bool:
        """`pi` inside a trigonometric argument directly or through the intermediates mentioned there (what substitution of
        the intermediates, e.g. by sympytools.rhs_matrix, turns into a trigonometric function of a sum containing pi)"""
        has_pi = {n: _contains(a.ast, lambda x: x[0] == "pi") for n, a in self.assigns.items()}

        def visit(node):
            if node[0] == "call" and node[1] in TRIG:
                names = set()
                for a in node[2]:
                    if _contains(a, lambda x: x[0] == "pi"):
                        return True
                    names |= expr_vars(a)
                for n in names:
                    if any(has_pi.get(c) for c in self.closure(n)):
                        return True
            return any(visit(c) for c in _children(node))

        return any(visit(a.ast) for a in self.assigns.values())

    def c_unsafe(self) -> set:
        """KNOWN C-backend defect classes the model text can touch (see c_unsafe); declarations included"""
        out = set()
        for a in self.assigns.values():
            out |= c_unsafe(a.ast)
        for d in list(self.states.values()) + list(self.params.values()):
            out |= c_unsafe(parse_expr(d.expr_text))
        return out & C_CLASSES_STILL_KNOWN

    def deriv_refs(self) -> dict:
        """{intermediate name: [d<state>_dt names its expression mentions]}"""
        out = {}
        for n in self.inter_names:
            r = sorted(d for d in self.assigns[n].deps if d in self.deriv_names)
            if r:
                out[n] = r
        return out

    def defaults(self):
        return ({k: d.value for k, d in self.states.items()}, {k: d.value for k, d in self.params.items()})


def _no_lookup(n):
    raise RefError(f"symbol {n} in a constant expression")


def _depth(s: str) -> int:
    d, q = 0, None
    for ch in s:
        if q:
            if ch == q:
                q = None
        elif ch in "\"'":
            q = ch
        elif ch == "(":
            d += 1
        elif ch == ")":
            d -= 1
    return d


# --------------------------------------------------------------------------------------
# Random model generator
# --------------------------------------------------------------------------------------
STATE_NAMES = ["x", "y", "z", "u", "v", "w", "V", "m", "h", "n", "Ca", "s1", "s2", "q", "r_a", "X1", "Nai", "cK"]
PARAM_NAMES = ["a", "b", "c", "k1", "k2", "g_K", "E_L", "tau", "p0", "Cm", "amp", "kf", "B2", "rho"]
INTER_NAMES = ["i1", "i2", "i3", "alpha", "beta1", "m_inf", "tau_m", "I_K", "aux", "j0", "w1", "w2", "i_Stim", "flux", "G", "e_k"]
COMP_NAMES = ["A", "B", "Membrane", "I Na", "gate_m"]
UNITS = ["mV", "ms", "mM", "uA/cm**2", "1", "ms**-1", "mS/uF", "pA/pF"]
UNARY_FUNCS = ["exp", "log", "ln", "sqrt", "sin", "cos", "tan", "asin", "acos", "atan", "abs", "Abs", "floor"]
ALL_FEATURES = (
    UNARY_FUNCS
    + ["Mod", "Conditional", "ContinuousConditional", "Lt", "Gt", "Le", "Ge", "Eq", "Not", "And2", "Or2", "And3", "Or3"]
    + ["pow", "intquot", "sci", "pi", "t", "time", "unary", "relarith", "nestcond"]
)


@dataclass
class GenOpts:
    n_states: tuple = (1, 5)
    n_params: tuple = (0, 5)
    n_inter: tuple = (0, 8)
    n_comps: tuple = (0, 3)  # 0: everything in the default component
    depth: int = 3
    features: tuple | None = None  # restrict to these feature names (None = all)
    force: tuple = ()  # features that must be tried first
    own: float = 0.0  # probability that a derivative gets an own-state term (Rush-Larsen forms)
    own_forms: tuple | None = None
    singular: int = 0  # number of removable singular factors to plant (C16)
    infinite_sing: bool = False
    singular_param: bool = False  # True: the singular point of the first planted factor (and of 2 in 3 of the others) is the value of a
    #                               used *parameter* (`(x - a)/(exp(x - a) - 1)` with `a` declared in parameters(...)) instead of a literal
    annotations: bool = True  # ScalarParam / trailing comments / units / comment lines
    shuffle: float = 0.3
    unused: bool = True
    min_comps_used: int = 0
    int_states: bool = False
    unused_frac: float = 0.25
    pi_in_trig: bool = False  # False: `pi` never inside the argument of sin / cos / tan (known sympy problem, probe territory)
    c_safe: bool = False  # True: nothing of the KNOWN C-backend defect classes (integer literals written as floats, no integer
    #                       quotients / exponents, Mod only of positive operands, no abs of floor); see c_unsafe
    indep: float = 0.0  # probability of the shape "derivatives independent of each other + unused intermediates that mention
    #                     states / parameters in various orders" (where a different sort of the reduced assignment set shows)
    deriv_ref: float = 0.0  # probability that 1-2 intermediates (unused monitors or used ones) mention a d<state>_dt name


@dataclass
class Model:
    text: str
    seed: int
    states: list = field(default_factory=list)
    params: list = field(default_factory=list)
    inters: list = field(default_factory=list)
    comps: list = field(default_factory=list)
    unused_inters: list = field(default_factory=list)
    unused_params: list = field(default_factory=list)
    singular_points: list = field(default_factory=list)  # [(state, value, kind)]
    own_forms: dict = field(default_factory=dict)
    indep: bool = False
    deriv_refs: dict = field(default_factory=dict)  # {intermediate: d<state>_dt it mentions}

    def ref(self) -> RefModel:
        return RefModel(self.text)


def _lit(rng: random.Random, feats, positive=False, small=False):
    kinds = ["int", "dec", "dec", "dec2"]
    if "sci" in feats:
        kinds += ["sci", "sci"]
    k = rng.choice(kinds)
    if k == "int":
        s = str(rng.choice([1, 2, 3, 4, 5, 7, 10]))
    elif k == "dec":
        s = rng.choice(["0.5", "1.5", "2.0", "0.25", "3.", ".75", "0.1", "1.2", "12.5", "0.05"])
    elif k == "dec2":
        s = f"{rng.uniform(0.1, 4):.{rng.randint(1, 4)}f}"
        if float(s) == 0:
            s = "0.3"
    else:
        s = rng.choice(["1e-1", "2.5e-1", "1E0", "3e+0", "1.5E-1", "5e-2", "2E1", "1.25e1", "4.e-1"])
    if small:
        s = rng.choice(["0.1", "0.2", "0.05", "1e-1", "0.3", "2e-1"])
    if not positive and rng.random() < 0.15:
        s = "-" + s
    return s


class _Gen:
    def __init__(self, rng: random.Random, feats: set, depth: int, c_safe: bool = False):
        self.rng, self.feats, self.maxdepth = rng, feats, depth
        self.force: list = []
        self.c_safe = c_safe

    def has(self, f):
        return f in self.feats

    def pick(self, options):
        """options: list of (feature-or-None, weight, thunk).  Forced features win."""
        avail = [o for o in options if o[0] is None or o[0] in self.feats]
        for o in avail:
            if o[0] is not None and o[0] in self.force:
                self.force.remove(o[0])
                return o[2]()
        tot = sum(o[1] for o in avail)
        r = self.rng.uniform(0, tot)
        for o in avail:
            r -= o[1]
            if r <= 0:
                return o[2]()
        return avail[-1][2]()

    def leaf(self, vs):
        rng = self.rng
        opts = [(None, 6, lambda: rng.choice(vs)) if vs else (None, 0.1, lambda: _lit(rng, self.feats)),
                (None, 2, lambda: _lit(rng, self.feats)),
                ("pi", 0.3, lambda: "pi"), ("t", 0.3, lambda: "t"), ("time", 0.2, lambda: "time")]
        return self.pick(opts)

    def expr(self, vs, d=None):
        d = self.maxdepth if d is None else d
        rng = self.rng
        if d <= 0 or (rng.random() < 0.25 and not self.force):
            return self.leaf(vs)
        E = lambda: self.expr(vs, d - 1)  # noqa: E731
        sm = lambda: self.small(vs, d - 1)  # noqa: E731
        opts = [
            (None, 3, lambda: f"{E()} + {E()}"),
            (None, 2, lambda: f"{E()} - {E()}"),
            (None, 3, lambda: f"{E()}*{E()}"),
            (None, 1.2, lambda: f"{E()}/{self.nonzero(vs, d - 1)}"),
            (None, 1, lambda: f"({E()})"),
            ("unary", 1, lambda: f"-{self.atomic(vs, d - 1)}"),
            ("unary", 0.3, lambda: f"+{self.atomic(vs, d - 1)}"),
            ("unary", 0.3, lambda: f"{E()} - -{self.atomic(vs, d - 1)}"),
            ("pow", 1, lambda: f"{self.atomic(vs, d - 1)}**{rng.choice(['2', '3', '2.0'])}"),
            ("pow", 0.5, lambda: f"{self.pos(vs, d - 1)}**{rng.choice(['0.5', '1.5', '-1', '(-0.5)', '-2', '(1.0/3)'])}"),
            ("pow", 0.3, lambda: f"-{self.atomic(vs, d - 1)}**2"),
            ("pow", 0.3, lambda: f"{rng.choice(['2', '1.5', '0.5'])}**{sm()}"),
            ("pow", 0.2, lambda: f"{self.pos(vs, d - 1)}**{sm()}"),
            ("pow", 0.2, lambda: f"2**-{self.atomic(vs, 0)}**2" if vs else "2**-1"),
            ("intquot", 0.5, lambda: f"{rng.choice(['1/4', '1/2', '3/2', '2/3', '(1/3)', '7/2'])}*{E()}"),
            ("intquot", 0.4, lambda: f"{self.pos(vs, d - 1)}**({rng.choice(['1/2', '1/3', '3/2', '2/3'])})"),
            ("exp", 1.2, lambda: f"exp({sm()})"),
            ("log", 0.6, lambda: f"log({self.pos(vs, d - 1)})"),
            ("ln", 0.4, lambda: f"ln({self.pos(vs, d - 1)})"),
            ("sqrt", 0.6, lambda: f"sqrt({self.pos(vs, d - 1)})"),
            ("sin", 0.5, lambda: f"sin({E()})"),
            ("cos", 0.5, lambda: f"cos({E()})"),
            ("tan", 0.3, lambda: f"tan({self.unit(vs, d - 1)})"),
            ("asin", 0.3, lambda: f"asin({self.unit(vs, d - 1)})"),
            ("acos", 0.3, lambda: f"acos({self.unit(vs, d - 1)})"),
            ("atan", 0.4, lambda: f"atan({E()})"),
            ("abs", 0.5, lambda: f"abs({E()})"),
            ("Abs", 0.3, lambda: f"Abs({E()})"),
            ("floor", 0.5, lambda: f"floor({E()})"),
            ("Mod", 0.5, (lambda: f"Mod({self.pos(vs, d - 1)}, {rng.choice(['2', '3', '1.5', '0.7'])})") if self.c_safe else
             (lambda: f"Mod({E()}, {rng.choice(['2', '3', '1.5', '0.7', '-2', '-1.5'])})")),
            ("Mod", 0.2, (lambda: f"Mod({self.pos(vs, d - 1)}, {self.pos(vs, d - 1)})") if self.c_safe else (lambda: f"Mod({E()}, {self.nonzero(vs, d - 1)})")),
            ("Conditional", 1.2, lambda: f"Conditional({self.boolean(vs, d - 1)}, {E()}, {E()})"),
            ("nestcond", 0.5, lambda: f"Conditional({self.boolean(vs, d - 1)}, {E()}, Conditional({self.boolean(vs, d - 1)}, {E()}, {E()}))"),
            ("nestcond", 0.3, lambda: f"Conditional({self.boolean(vs, d - 1)}, Conditional({self.boolean(vs, d - 1)}, {E()}, {E()}), {E()})"),
            ("ContinuousConditional", 0.5, lambda: f"ContinuousConditional({self.rel(vs, d - 1, cc=True)}, {E()}, {E()}, {rng.choice(['0.5', '1.0', '0.2', '2'])})"),
            ("relarith", 0.3, lambda: f"{self.rel(vs, d - 1)}*{E()}"),
            ("relarith", 0.2, lambda: f"{E()} + {self.rel(vs, d - 1)}"),
        ]
        return self.pick(opts)

    def atomic(self, vs, d):
        """something that can stand right of a unary sign / left of ** without changing meaning"""
        if d <= 0 or self.rng.random() < 0.5:
            v = self.leaf(vs)
            return v if not v.startswith("-") else f"({v})"
        return f"({self.expr(vs, d)})"

    def small(self, vs, d):
        rng = self.rng
        e = self.atomic(vs, d)
        return rng.choice([f"{_lit(rng, self.feats, small=True)}*{e}", f"-abs({e})", f"{e}/(1 + abs({e}))", f"-{_lit(rng, self.feats, small=True, positive=True)}*{e}", f"sin({e})"])

    def pos(self, vs, d):
        rng = self.rng
        e = self.atomic(vs, d)
        return rng.choice([f"(abs({e}) + {_lit(rng, self.feats, positive=True)})", f"({e}**2 + {_lit(rng, self.feats, positive=True)})", f"exp({self.small(vs, d - 1)})", f"(1 + {e}**2)"])

    def unit(self, vs, d):
        rng = self.rng
        e = self.atomic(vs, d)
        return rng.choice([f"0.9*sin({e})", f"{e}/(1 + abs({e}))", f"0.5*cos({e})", f"({e}/(1.5 + abs({e})))"])

    def nonzero(self, vs, d):
        rng = self.rng
        return rng.choice([self.pos(vs, d), f"(2 + sin({self.atomic(vs, d)}))", f"(-{self.pos(vs, d)})", _lit(rng, self.feats, positive=True), self.pos(vs, d)])

    def rel(self, vs, d, cc=False):
        rng = self.rng
        names = [r for r in (("Lt", "Gt", "Le", "Ge") if cc else RELS) if r in self.feats] or ["Lt"]
        for r in names:
            if r in self.force:
                self.force.remove(r)
                names = [r]
                break
        r = rng.choice(names)
        a = self.expr(vs, min(d, 1))
        if not expr_vars(parse_expr(a)):  # never compare two constants (sympy folds them)
            a = f"{a} + {rng.choice(vs) if vs else 't'}"
        if r == "Eq":
            b = rng.choice(["0", "1", "2", f"floor({a})"]) if rng.random() < 0.7 else self.expr(vs, 0)
            if rng.random() < 0.5 and not b.startswith("floor"):
                a = f"floor({a})"
        else:
            b = self.expr(vs, min(d, 1)) if rng.random() < 0.6 else _lit(rng, self.feats)
        if b.replace(" ", "") == a.replace(" ", ""):
            b = _lit(rng, self.feats)
        if self.c_safe and expr_vars(parse_expr(b)) & expr_vars(parse_expr(a)):
            b = _lit(rng, self.feats)  # `Gt(2 + v, v)` is folded to a bare boolean constant by sympy (probe territory)
        return f"{r}({a}, {b})"

    def boolean(self, vs, d):
        rng = self.rng
        R = lambda: self.rel(vs, d - 1)  # noqa: E731
        B = (lambda: self.boolean(vs, d - 1)) if d > 0 else R
        opts = [
            (None, 4, R),
            ("Not", 0.8, lambda: f"Not({B()})"),
            ("And2", 0.8, lambda: f"And({B()}, {R()})"),
            ("Or2", 0.8, lambda: f"Or({R()}, {B()})"),
            ("And3", 0.6, lambda: f"And({R()}, {R()}, {B()})" if rng.random() < 0.7 else f"And({R()}, {R()}, {R()}, {R()})"),
            ("Or3", 0.6, lambda: f"Or({R()}, {B()}, {R()})" if rng.random() < 0.7 else f"Or({R()}, {R()}, {R()}, {R()})"),
        ]
        return self.pick(opts)


OWN_FORMS = {
    "linear": lambda s, p, g: f"-{p}*{s}",
    "affine_tau": lambda s, p, g: f"({g.leaf([])} - {s})/(abs({p}) + 0.5)",
    "gate": lambda s, p, g: f"{p}*(1 - {s}) - 0.3*{s}",
    "exp": lambda s, p, g: f"-exp(0.1*{s})",
    "product": lambda s, p, g: f"{s}*{p}",
    "cubic": lambda s, p, g: f"-{s}**3",
    "square": lambda s, p, g: f"{p}*{s}**2",
    "sin": lambda s, p, g: f"sin({s})",
    "sqrt": lambda s, p, g: f"sqrt({s}**2 + 1)",
    "abs": lambda s, p, g: f"-abs({s})",
    "floor": lambda s, p, g: f"floor({s})",
    "Mod": lambda s, p, g: f"Mod({s}, 2)",
    "cond": lambda s, p, g: f"Conditional(Gt({s}, 0.1), -{s}, 0.5*{s})",
    "cond_own_in_cond_only": lambda s, p, g: f"Conditional(Lt({s}, {p}), 1.0, -2.0)",
    "ccond": lambda s, p, g: f"ContinuousConditional(Gt({s}, 0.2), -{s}, {p}, 0.5)",
    "tiny": lambda s, p, g: f"1e-9*{s}",
    "log": lambda s, p, g: f"log(1 + {s}**2)",
    "atan": lambda s, p, g: f"atan({s})",
    "recip": lambda s, p, g: f"1/(1 + {s}**2)",
    "const": lambda s, p, g: f"{p} + 1.5",
}

SINGULAR_FORMS = {
    # kind: (builder(var, a) -> text, limit(a) value not needed: reference uses the analytic limit below)
    "x_over_expm1": (lambda v, a: f"({v} - {a})/(exp({v} - {a}) - 1)" if a != "0" else f"{v}/(exp({v}) - 1)", 1.0),
    "sinc": (lambda v, a: f"sin({v} - {a})/({v} - {a})" if a != "0" else f"sin({v})/{v}", 1.0),
    "expm1_over_x": (lambda v, a: f"(exp(0.5*({v} - {a})) - 1)/({v} - {a})", 0.5),
    "chan": (lambda v, a: f"0.32*({v} - {a})/(1 - exp(-0.1*({v} - {a})))", 3.2),
    "same": (lambda v, a: f"({v} - {a})/({v} - {a})", 1.0),
}


def gen_model(seed: int, opts: GenOpts | None = None) -> Model:
    """Deterministic: same (seed, opts) -> same text."""
    o = opts or GenOpts()
    for attempt in range(40):
        rng = random.Random(f"{seed}/{attempt}")
        try:
            m = _gen_once(rng, o, seed)
            ref = m.ref()
            if not o.pi_in_trig and ref.has_pi_in_trig():
                continue
            if o.c_safe and ref.c_unsafe():
                continue
            if valid_points(ref, random.Random(seed), 4, tries=12):
                return m
        except RefError:
            continue
    return _fallback(seed)


def _fallback(seed):
    text = "parameters(a=1.5)\nstates(x=0.5, y=-1.0)\ni1 = a*x - y\ndx_dt = -i1\ndy_dt = x*y + a\n"
    return Model(text, seed, ["x", "y"], ["a"], ["i1"], [""])


def _gen_once(rng: random.Random, o: GenOpts, seed: int) -> Model:
    feats = set(o.features if o.features is not None else ALL_FEATURES)
    if o.c_safe:
        feats -= {"intquot"}
    g = _Gen(rng, feats, o.depth, c_safe=o.c_safe)
    g.force = [f for f in o.force if f in feats]
    nS = rng.randint(*o.n_states)
    nP = rng.randint(*o.n_params)
    nI = rng.randint(*o.n_inter)
    nC = rng.randint(*o.n_comps)
    indep = o.indep > 0 and rng.random() < o.indep
    want_dref = o.deriv_ref > 0 and rng.random() < o.deriv_ref
    if indep:
        nS = max(nS, min(max(2, o.n_states[1]), rng.randint(2, 4)))
        nI = max(nI, rng.randint(2, 5))
        nP = max(nP, rng.randint(1, 3))
    if want_dref:
        nI = max(nI, 1)
    if o.singular and o.singular_param:
        nP = max(nP, 1)
    S = rng.sample(STATE_NAMES, nS)
    P = rng.sample(PARAM_NAMES, nP)
    I = rng.sample(INTER_NAMES, nI)
    comps = rng.sample(COMP_NAMES, nC) if nC else []
    pool = comps + ([""] if (not comps or (rng.random() < 0.3 and o.min_comps_used == 0)) else [])
    comp_of = {}
    for i, s in enumerate(S):
        comp_of[s] = pool[i % len(pool)] if i < len(pool) and o.min_comps_used else rng.choice(pool)
    for n in P + I:
        comp_of[n] = rng.choice(pool)
    # values
    sval, pval = {}, {}
    for s in S:
        if o.int_states and rng.random() < 0.5:
            sval[s] = str(rng.choice([-3, -2, -1, 1, 2, 3, 5]))
        else:
            sval[s] = rng.choice(["0.5", "-1.0", "1.2", "0.01", "-85.0", "2", "0.8", "-0.3", "1e-1", "3.5", "-2.5E0", "0.25"])
    for p in P:
        pval[p] = rng.choice(["1.0", "0.5", "2", "-1.5", "12.0", "0.13", "1e-1", "2.5E0", "3", "1/4", "2*pi", "exp(1)", "sqrt(2)", "-(1.5)", "1.5e+0", "0.75"])
    # dependency structure
    unused_I, unused_P = [], []
    if o.unused:
        for n in I:
            if rng.random() < o.unused_frac:
                unused_I.append(n)
        for p in P:
            if rng.random() < 0.2 and len(P) - len(unused_P) > 0:
                unused_P.append(p)
    if indep:  # at least one unused intermediate, at least one used parameter
        k = rng.randint(1, max(1, len(I) // 2 + 1))
        unused_I = [n for n in I if n in set(unused_I) | set(rng.sample(I, min(k, len(I))))]
        if len(unused_P) == len(P):
            unused_P = unused_P[1:]
    if o.singular and o.singular_param and len(unused_P) == len(P):
        unused_P = unused_P[1:]
    usedP = [p for p in P if p not in unused_P]
    usedI = [n for n in I if n not in unused_I]
    exprs: dict = {}
    shape = rng.choice(["chain", "diamond", "random", "random", "flat"])
    group_of = {n: rng.choice(S) for n in usedI} if indep else {}
    for idx, n in enumerate(I):
        is_un = n in unused_I
        if indep:
            # unused: a random selection of states / parameters (all of them mentioned), sometimes an earlier unused one;
            # used: only the state of its own group, used parameters and earlier intermediates of the same group
            if is_un:
                names = rng.sample(S + P, min(len(S + P), rng.randint(1, 3)))
                prev_un = [e for e in I[:idx] if e in unused_I]
                must = names + ([rng.choice(prev_un)] if prev_un and rng.random() < 0.3 else [])
            else:
                prev_g = [e for e in I[:idx] if group_of.get(e) == group_of[n]]
                must = ([prev_g[-1]] if prev_g and rng.random() < 0.6 else []) + ([group_of[n]] if rng.random() < 0.8 else [])
                names = must + rng.sample(usedP, min(len(usedP), rng.randint(0, 2)))
            exprs[n] = _with_must(g, must * 2 + names, must, min(o.depth, 2))
            continue
        earlier = [e for e in I[:idx] if (e in unused_I) == is_un or (is_un and rng.random() < 0.5)]
        must = []
        if earlier:
            if shape == "chain":
                must = [earlier[-1]]
            elif shape == "diamond" and len(earlier) >= 2 and idx % 3 == 2:
                must = earlier[-2:]
            elif shape == "diamond":
                must = [earlier[0]]
            elif shape == "random" and rng.random() < 0.6:
                must = rng.sample(earlier, min(len(earlier), rng.randint(1, 2)))
        base = S + (P if is_un else usedP)
        vs = must * 2 + rng.sample(base, min(len(base), rng.randint(1, 3))) if base else must
        exprs[n] = _with_must(g, vs, must, o.depth)
    # every used intermediate must be referenced by a later used intermediate or a derivative
    referenced = set()
    for n in usedI:
        referenced |= expr_vars(parse_expr(exprs[n])) & set(usedI)
    pending = [n for n in usedI if n not in referenced]
    rng.shuffle(pending)
    sing_points, own = [], {}
    plan_sing = []
    if o.singular:
        kinds = list(SINGULAR_FORMS)
        for k in range(o.singular):
            plan_sing.append((rng.choice(kinds), rng.choice(S), rng.choice(["0", "0", "1", "2", "-1"])))
        if o.singular_param:  # the singular point is the value of a parameter (the first factor always, the others 2 in 3)
            plan_sing = [(kind, sv, rng.choice(usedP) if (k == 0 or rng.random() < 2 / 3) else a) for k, (kind, sv, a) in enumerate(plan_sing)]
    dexpr = {}
    for si, s in enumerate(S):
        must = []
        if indep:  # d<s>_dt mentions only s, used parameters and the (so far unreferenced) intermediates of its own group
            must = [n for n in pending if group_of[n] == s]
            vs = must * 2 + [s] + rng.sample(usedP, min(len(usedP), rng.randint(0, 2)))
        else:
            share = max(1, math.ceil(len(pending) / max(1, (len(S) - si))))
            for _ in range(min(share, len(pending))):
                must.append(pending.pop())
            if si == len(S) - 1:
                must += pending
                pending = []
            base = S + usedP + usedI
            vs = must * 2 + (rng.sample(base, min(len(base), rng.randint(1, 3))) if base else [])
        e = _with_must(g, vs, must, o.depth)
        if rng.random() < o.own:
            forms = list(o.own_forms or OWN_FORMS)
            f = forms[(seed + si) % len(forms)] if o.own_forms else rng.choice(forms)
            p = rng.choice(usedP) if usedP else _lit(rng, feats, positive=True)
            term = OWN_FORMS[f](s, p, g)
            own[s] = f
            if rng.random() < 0.5 or s in expr_vars(parse_expr(e)):
                # keep the own state out of the rest so that the form is what matters
                others = [v for v in vs if v != s]
                e = _with_must(g, others, [m_ for m_ in must if m_ != s], max(1, o.depth - 1))
            e = f"{term} + {e}" if rng.random() < 0.5 else f"{e} + {term}"
        dexpr[s] = e
    # intermediates that mention a state derivative by name (an unused monitor `i_cap = Cm*dV_dt`, or a used one)
    drefs = {}
    if want_dref and I:
        allx = dict(exprs)
        allx.update({f"d{s}_dt": dexpr[s] for s in S})

        def reaches(src, target, seen=None):
            seen = set() if seen is None else seen
            if src == target:
                return True
            if src in seen or src not in allx:
                return False
            seen.add(src)
            return any(reaches(v, target, seen) for v in expr_vars(parse_expr(allx[src])))

        cands = list(dict.fromkeys(rng.sample(unused_I, len(unused_I)) + rng.sample(unused_I + usedI, len(unused_I + usedI))))
        for n in cands[: rng.randint(1, 2)]:
            ok = [s for s in S if n in unused_I or not reaches(f"d{s}_dt", n)]
            if not ok:
                continue
            s = rng.choice(ok)
            coef = rng.choice((P if n in unused_I else usedP) or [_lit(rng, feats, positive=True)])
            exprs[n] = rng.choice([f"{coef}*d{s}_dt", f"{exprs[n]} + {coef}*d{s}_dt", f"d{s}_dt - ({exprs[n]})"])
            allx[n] = exprs[n]
            drefs[n] = f"d{s}_dt"
    # unused params must be unreferenced; used params that ended up unreferenced are fine
    for kind, sv, a in plan_sing:
        build, lim = SINGULAR_FORMS[kind]
        tgt = rng.choice(S)
        fac = build(sv, a)
        dexpr[tgt] = f"{fac}*({dexpr[tgt]})" if rng.random() < 0.5 else f"{dexpr[tgt]} + {_lit(rng, feats, positive=True)}*{fac}"
        sing_points.append((sv, a if a in P else float(a), kind, f"d{tgt}_dt"))
    if o.infinite_sing:
        sv = rng.choice(S)
        tgt = rng.choice(S)
        dexpr[tgt] = f"{dexpr[tgt]} + 1/({sv} - 4)"
        sing_points.append((sv, 4.0, "infinite", f"d{tgt}_dt"))
    # ---- territory rewriting (see c_unsafe / pi_in_trig) -------------------------------------
    def tidy(e):
        if not o.pi_in_trig:
            e = no_pi_in_trig(e)
        if o.c_safe:
            e = floatify(e)
        return e

    exprs = {n: tidy(e) for n, e in exprs.items()}
    dexpr = {n: tidy(e) for n, e in dexpr.items()}
    if o.c_safe:
        sval = {n: floatify(v) for n, v in sval.items()}
        pval = {n: floatify(v) for n, v in pval.items()}
    # ---- render -----------------------------------------------------------------
    ann = o.annotations
    lines = []
    if ann and rng.random() < 0.5:
        lines.append(f"# generated model {seed}")
        if rng.random() < 0.3:
            lines.append("# second header line: a*b + (c")

    def decl(name, val):
        if ann and rng.random() < 0.3:
            extra = ""
            r = rng.random()
            if r < 0.6:
                extra += f', unit="{rng.choice(UNITS)}"'
            if r > 0.3:
                extra += f', description="{rng.choice(["a gate", "conductance", "", "rate k"])}"'
            return f"{name}=ScalarParam({val}{extra})"
        return rng.choice([f"{name}={val}", f"{name} = {val}"])

    def block(kind, comp, names, vals):
        head = f'{kind}("{comp}", ' if comp else f"{kind}("
        ents = [decl(n, vals[n]) for n in names]
        if rng.random() < 0.4 and len(ents) > 1:
            return head + ",\n    ".join(ents) + ")"
        return head + ", ".join(ents) + ")"

    decl_blocks = []
    for comp in pool:
        ss = [s for s in S if comp_of[s] == comp]
        ps = [p for p in P if comp_of[p] == comp]
        # sometimes split a declaration block in two
        for kind, names, vals in (("states", ss, sval), ("parameters", ps, pval)):
            if not names:
                continue
            if len(names) > 2 and rng.random() < 0.25:
                k = rng.randint(1, len(names) - 1)
                decl_blocks.append(block(kind, comp, names[:k], vals))
                decl_blocks.append(block(kind, comp, names[k:], vals))
            else:
                decl_blocks.append(block(kind, comp, names, vals))
    rng.shuffle(decl_blocks)
    for b in decl_blocks:
        if ann and rng.random() < 0.2:
            lines.append("# " + rng.choice(["States", "declarations", "units: mV", "x = 1"]))
        lines.append(b)
        if rng.random() < 0.5:
            lines.append("")
    order_comps = [c for c in pool if c == ""] + [c for c in pool if c != ""]
    for comp in order_comps:
        names = [n for n in I if comp_of[n] == comp] + [f"d{s}_dt" for s in S if comp_of[s] == comp]
        if not names:
            continue
        if rng.random() < o.shuffle:
            rng.shuffle(names)
        else:
            # definitions before uses inside the block where possible
            names = [n for n in I if n in names] + [n for n in names if n not in I]
        if comp:
            if ann and rng.random() < 0.3:
                lines.append(f"# component {comp}")
            lines.append(f'expressions("{comp}")')
        for n in names:
            e = exprs[n] if n in exprs else dexpr[n[1:-3]]
            ln = rng.choice([f"{n} = {e}", f"{n} = {e}", f"{n}={e}"])
            if ann and rng.random() < 0.25:
                ln += " # " + rng.choice(UNITS + ["a comment", "rate of x", "uA/uF"])
            lines.append(ln)
        lines.append("")
    text = "\n".join(lines).rstrip("\n") + "\n"
    return Model(text, seed, S, P, I, pool, unused_I, unused_P, sing_points, own, indep, drefs)


def _with_must(g: _Gen, vs, must, depth):
    """expression over `vs` that certainly mentions every name in `must`."""
    vs = list(vs)
    e = g.expr(vs or [], depth) if vs else g.expr([], 1)
    have = expr_vars(parse_expr(e))
    for m in must:
        if m not in have:
            e = g.rng.choice([f"{e} + {m}", f"{m}*({e})", f"({e}) - {m}", f"{m} + {e}"])
    return e


# --------------------------------------------------------------------------------------
# Input points
# --------------------------------------------------------------------------------------
def sample_point(ref: RefModel, rng: random.Random, spread=0.5, special=False):
    s0, p0 = ref.defaults()
    st, pa = {}, {}
    for k, v in s0.items():
        if special:
            st[k] = rng.choice([v, float(round(v)), -abs(v), abs(v), 0.0, 1.0, -1.0, 2.0, -3.0, 0.5, 7.0])
        else:
            st[k] = v * (1 + spread * rng.uniform(-1, 1)) + spread * rng.uniform(-1, 1)
    for k, v in p0.items():
        if special:
            pa[k] = rng.choice([v, -v, 0.0, 1.0, 2.0, -1.0])
        else:
            pa[k] = v * (1 + spread * rng.uniform(-1, 1)) + 0.2 * spread * rng.uniform(-1, 1)
    t = rng.choice([0.0, 1.0, rng.uniform(0, 10), rng.uniform(0, 500)])
    return {"t": t, "states": st, "params": pa}


def point_ok(ref: RefModel, pt, bound=1e12, names=None):
    try:
        vals, frag = ref.evaluate(pt["t"], pt["states"], pt["params"], names=names)
    except RefError:
        return None
    if frag or any(abs(v) > bound for v in vals.values()):
        return None
    return vals


def valid_points(ref: RefModel, rng: random.Random, n: int, tries=None, special_frac=0.3, spread=0.5):
    """n points at which every assignment of the model is defined, finite and not within
    rounding distance of a discontinuity.  The first is the default point when valid."""
    out = []
    s0, p0 = ref.defaults()
    first = {"t": 0.0, "states": s0, "params": p0}
    if point_ok(ref, first) is not None:
        out.append(first)
    tries = tries or 6 * n
    for _ in range(tries):
        if len(out) >= n:
            break
        pt = sample_point(ref, rng, spread=spread, special=rng.random() < special_frac)
        if point_ok(ref, pt) is not None:
            out.append(pt)
    return out[:n]


def feature_cycle(i: int, k=3) -> tuple:
    """deterministic coverage: model i is forced to contain features i*k .. i*k+k-1"""
    n = len(ALL_FEATURES)
    return tuple(ALL_FEATURES[(i * k + j) % n] for j in range(k))
