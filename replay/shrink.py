"""Greedy shrinking of a failing model text (delta debugging on the reference AST).

`shrink(text, still_fails)` returns a smaller text for which `still_fails(text)` is still
true.  Steps: flatten annotations/components, constant-fold whole assignments, drop
unreferenced names, replace subtrees by one of their children or a literal."""
from __future__ import annotations

import time

import modelgen as mg


def unparse(n) -> str:
    k = n[0]
    if k == "num":
        return n[1]
    if k == "pi":
        return "pi"
    if k == "var":
        return n[1]
    if k == "par":
        return f"({unparse(n[1])})"
    if k == "un":
        return f"{n[1]}{unparse(n[2])}"
    if k == "bin":
        sp = "" if n[1] == "**" else " "
        return f"{unparse(n[2])}{sp}{n[1]}{sp}{unparse(n[3])}"
    return f"{n[1]}({', '.join(unparse(a) for a in n[2])})"


def _safe(n):
    """wrap a subtree so that it can stand anywhere an operand can"""
    if n[0] in ("num", "var", "pi", "par", "call"):
        return n
    return ("par", n)


def _is_bool(n):
    while n[0] == "par":
        n = n[1]
    return n[0] == "call" and n[1] in ("Lt", "Gt", "Le", "Ge", "Eq", "Not", "And", "Or")


def _candidates(n):
    """smaller replacements for node n (same 'type': boolean stays boolean)"""
    k = n[0]
    out = []
    if _is_bool(n):
        if k == "par":
            return [n[1]]
        if n[1] in ("Not",):
            out += [a for a in n[2] if _is_bool(a)]
        if n[1] in ("And", "Or"):
            out += [a for a in n[2]]
            if len(n[2]) > 2:
                for i in range(len(n[2])):
                    out.append(("call", n[1], tuple(a for j, a in enumerate(n[2]) if j != i)))
        return out
    if k == "par":
        out.append(n[1])
    elif k == "un":
        out.append(n[2])
    elif k == "bin":
        out += [_safe(n[2]), _safe(n[3])]
    elif k == "call":
        if n[1] in ("Conditional", "ContinuousConditional"):
            out += [_safe(n[2][1]), _safe(n[2][2])]
        else:
            out += [_safe(a) for a in n[2] if not _is_bool(a)]
    if k not in ("num",):
        out.append(("num", "2"))
    return out


def _paths(n, path=()):
    yield path, n
    k = n[0]
    if k == "par":
        yield from _paths(n[1], path + (1,))
    elif k == "un":
        yield from _paths(n[2], path + (2,))
    elif k == "bin":
        yield from _paths(n[2], path + (2,))
        yield from _paths(n[3], path + (3,))
    elif k == "call":
        for i, a in enumerate(n[2]):
            yield from _paths(a, path + (2, i))


def _replace(n, path, new):
    if not path:
        return new
    i = path[0]
    if n[0] == "call" and i == 2:
        j = path[1]
        args = list(n[2])
        args[j] = _replace(args[j], path[2:], new)
        return (n[0], n[1], tuple(args))
    lst = list(n)
    lst[i] = _replace(lst[i], path[1:], new)
    return tuple(lst)


class Flat:
    """mutable plain form of a model: decls + assignments (default component, no annotations)"""

    def __init__(self, ref: mg.RefModel, keep_components=False):
        self.states = {k: d.expr_text for k, d in ref.states.items()}
        self.params = {k: d.expr_text for k, d in ref.params.items()}
        self.assigns = {k: a.ast for k, a in ref.assigns.items()}
        self.comp = {}
        if keep_components:
            for k, d in list(ref.states.items()) + list(ref.params.items()):
                self.comp[k] = d.comps[0]
            for k, a in ref.assigns.items():
                self.comp[k] = a.comps[0]

    def copy(self):
        import copy

        return copy.deepcopy(self)

    def text(self) -> str:
        comps = sorted(set(self.comp.values()) | {""}) if self.comp else [""]
        lines = []
        for c in comps:
            for kind, d in (("states", self.states), ("parameters", self.params)):
                ents = [f"{k}={v}" for k, v in d.items() if self.comp.get(k, "") == c]
                if ents:
                    lines.append(f'{kind}("{c}", ' + ", ".join(ents) + ")" if c else f"{kind}(" + ", ".join(ents) + ")")
        for c in comps:
            names = [k for k in self.assigns if self.comp.get(k, "") == c]
            if not names:
                continue
            if c:
                lines.append(f'expressions("{c}")')
            for k in names:
                lines.append(f"{k} = {unparse(self.assigns[k])}")
        return "\n".join(lines) + "\n"

    def size(self):
        return len(self.text())


def shrink(text: str, still_fails, max_steps=80, max_seconds=20.0, keep_components=False) -> str:
    t_end = time.time() + max_seconds
    steps = [0]

    def ok(candidate_text):
        if steps[0] >= max_steps or time.time() > t_end:
            return False
        steps[0] += 1
        try:
            return bool(still_fails(candidate_text))
        except Exception:  # noqa: BLE001
            return False

    try:
        ref = mg.RefModel(text)
    except Exception:  # noqa: BLE001
        return text
    best_text = text
    cur = Flat(ref, keep_components=True)
    if ok(cur.text()):
        best_text = cur.text()
        if not keep_components:
            f2 = Flat(ref, keep_components=False)
            if ok(f2.text()):
                cur, best_text = f2, f2.text()
    else:
        return text

    def attempt(mut):
        nonlocal cur, best_text
        c = cur.copy()
        mut(c)
        t = c.text()
        if len(t) < len(best_text) and ok(t):
            cur, best_text = c, t
            return True
        return False

    # 1. whole assignments -> constant
    for name in list(cur.assigns):
        if cur.assigns[name][0] != "num":
            attempt(lambda c, name=name: c.assigns.__setitem__(name, ("num", "1")))
    # 2. drop unreferenced intermediates / parameters / constant states
    def drop_unused():
        changed = True
        while changed and steps[0] < max_steps:
            changed = False
            used = set()
            for a in cur.assigns.values():
                used |= mg.expr_vars(a)
            for n in list(cur.assigns):
                is_der = n.startswith("d") and n.endswith("_dt") and n[1:-3] in cur.states
                if not is_der and n not in used:
                    if attempt(lambda c, n=n: c.assigns.pop(n)):
                        changed = True
            for p in list(cur.params):
                if p not in used:
                    if attempt(lambda c, p=p: c.params.pop(p)):
                        changed = True
            for s in list(cur.states):
                if s not in used and len(cur.states) > 1 and cur.assigns.get(f"d{s}_dt", ("x",))[0] == "num":
                    def rm(c, s=s):
                        c.states.pop(s)
                        c.assigns.pop(f"d{s}_dt", None)
                    if attempt(rm):
                        changed = True

    drop_unused()
    # 3. subtree replacement
    progress = True
    while progress and steps[0] < max_steps and time.time() < t_end:
        progress = False
        for name in list(cur.assigns):
            if name not in cur.assigns:
                continue
            done = False
            for path, node in _paths(cur.assigns[name]):
                for cand in _candidates(node):
                    new = _replace(cur.assigns[name], path, cand)
                    if attempt(lambda c, name=name, new=new: c.assigns.__setitem__(name, new)):
                        progress = done = True
                        break
                if done:
                    break
    drop_unused()
    return best_text
