#!/usr/bin/env python3
"""Evaluate one seeded change on a scratch worktree (never on /repo itself):
   tools/try_seed.py <dir with patch.diff and demo.py> <property id> [more property ids] [--baseline] [--tier quick]
Confirms: patch applies, demo fails with it and passes without it, (optionally) the pinned baseline still passes,
then runs ./check for the given properties against the patched tree and reports exit codes and VIOLATION lines."""
import json
import os
import shutil
import subprocess
import sys
import time
from pathlib import Path

HERE = Path(__file__).resolve().parent.parent


def sh(cmd, **kw):
    return subprocess.run(cmd, shell=isinstance(cmd, str), capture_output=True, text=True, **kw)


def main():
    args = [a for a in sys.argv[1:] if not a.startswith("--")]
    flags = [a for a in sys.argv[1:] if a.startswith("--")]
    seed = Path(args[0]).resolve()
    props = args[1:]
    tier = "quick"
    patch = next(seed.glob("patch*.diff"))
    demo = next(seed.glob("demo*.py"))
    wt = Path(os.environ.get("SEED_SCRATCH", "/tmp/mainwork/seedrun")) / f"{seed.name}_{os.getpid()}"
    wt.parent.mkdir(parents=True, exist_ok=True)
    res = {"seed": seed.name, "props": {}}
    try:
        r = sh(["git", "-C", "/repo", "worktree", "add", "-q", "--detach", str(wt), "HEAD"])
        if r.returncode:
            print("worktree failed", r.stderr)
            return 3
        r = sh(["git", "-C", str(wt), "apply", str(patch)])
        res["patch_applies"] = r.returncode == 0
        if r.returncode:
            print("PATCH DOES NOT APPLY:", r.stderr[:500])
            print(json.dumps(res))
            return 3
        env = dict(os.environ, PYTHONPATH=f"{wt}/src", PYTHONDONTWRITEBYTECODE="1")
        shutil.copy(demo, wt / demo.name)
        r1 = sh(["/venv/bin/python", demo.name], cwd=wt, env=env, timeout=900)
        sh(["git", "-C", str(wt), "apply", "-R", str(patch)])
        r0 = sh(["/venv/bin/python", demo.name], cwd=wt, env=env, timeout=900)
        sh(["git", "-C", str(wt), "apply", str(patch)])
        res["demo_with_change_exit"] = r1.returncode
        res["demo_without_change_exit"] = r0.returncode
        if "--baseline" in flags:
            b = sh(["python3", str(HERE / "tools" / "baseline.py")], env=dict(os.environ, GOTRANX_REPO=str(wt)), timeout=3000)
            res["baseline"] = b.stdout.strip().splitlines()[:5]
        for p in props:
            out = wt.parent / f"out_{seed.name}_{p}"
            env2 = dict(os.environ, GOTRANX_REPO=str(wt), VERIF_OUT_DIR=str(out), VERIF_EVIDENCE_DIR=str(out / "evidence"))
            t0 = time.time()
            c = sh([str(HERE / "check"), p, "--tier", tier], env=env2, cwd=HERE, timeout=3600)
            lines = [l for l in c.stdout.splitlines() if l.startswith(("VIOLATION", "UNDECIDED", "CHECKER-ERROR", "  failed", "  bounded"))]
            res["props"][p] = {"exit": c.returncode, "seconds": round(time.time() - t0), "lines": lines[:12],
                               "summary": c.stdout.strip().splitlines()[-1][:300] if c.stdout.strip() else c.stderr[-300:]}
            shutil.rmtree(out, ignore_errors=True)
    finally:
        sh(["git", "-C", "/repo", "worktree", "remove", "--force", str(wt)])
        shutil.rmtree(wt, ignore_errors=True)
    print(json.dumps(res, indent=1))
    return 0


if __name__ == "__main__":
    sys.exit(main())
