#!/usr/bin/env python3
"""Regenerate /verif/MANIFEST.json from the property table below (run by hand after changing claims)."""
import json
import sys
from pathlib import Path

HERE = Path(__file__).resolve().parent.parent
sys.path.insert(0, str(HERE))

TRUST = ("Trusted base: the pyvc VC generator itself (sound only as far as its self-tests show), z3/cvc5, the assumed contracts on "
         "sympy / graphlib / lark / pint / typer / numpy / jax / the C compiler listed in the evidence file, machine arithmetic read "
         "as real arithmetic. ")

CLAIMS = {
    "C01": ("proof", "Proved (all inputs, no bound): build_expression.expr2symbols denotes the reference meaning T of the grammar's arithmetic "
            "nodes and of functions of arity <= 2 (left fold of + - * /, unary sign, **, variables, literals, pi, Conditional, "
            "ContinuousConditional), binary_op/unary_op/relational_to_piecewise/Conditional meanings, CodeGenerator.rhs emits exactly "
            "rhs_emit over sorted_assignments with the unpack statements of the sorted states/parameters; lemma L2 (induction): executing a "
            "single-assignment statement list in dependency order leaves every target equal to the value of its definition; lemma L3 (induction): executing "
            "rhs_emit leaves in slot count_sd(i) the value of the i-th assignment's expression for every state derivative i (cells of `values` as "
            "locations of the same environment). Bounded (skeleton instances): "
            "numpy printer overrides and the python method template. Assumed: sympy constructors/printer, lark precedence. "
            "Bounded stand-in: 400+ generated models against an independent reference evaluator.",
            "environment algebra of L2/L3 (update, frame, distinct array cells do not alias) assumed; that the printed text denotes the Stmt list (printer, template) is assumed/bounded"),
    "C02": ("proof", "Proved: C argument builders exhaustively over all 6+24 argument orders, gotran2c.get_code assembles every part with every option, "
            "emission functions shared with C01/C04. Bounded instances: C templates compiled and called (index functions return the table entry and -1 "
            "also for names that extend or truncate a known name; init functions fill exactly their slots, guard cells untouched); the C printer's own "
            "overrides - Piecewise assignment form as one conditional chain, Float keeps a floating literal, Abs is fabs, Mod is compiled and "
            "evaluated on all sign combinations against Python's %, bool_to_int replaces whole words only; class frame. The remaining C-specific "
            "clause (quotients of integer literals) is decided only by the bounded stand-in and is a listed finding.",
            "sympy's C99 printer is outside every contract (its inherited methods are assumed); integer-literal quotients are a known finding"),
    "C03": ("proof", "Proved: monitor_values / missing_values pass their own slot count to the template (the JAX template returns exactly "
            "_values_0.._values_{n-1}), missing_values writes each requested name to its requested slot incl. the early break (lemma), "
            "And/Or/Not/sign printer overrides are elementwise nested binary calls (bounded instances 2..4 operands); JaxPrinter writes values[n] to "
            "the variable _values_n that the template collects (instances); the JAX initial-value templates put defaults and keyword overrides in "
            "their slots (emitted text executed under jax, jitted). Bounded stand-in runs the generated JAX modules jitted and un-jitted.",
            "jax/XLA semantics assumed; rhs slot count equals num_states relies on WF (one derivative per state)"),
    "C04": ("proof", "Proved: index dictionaries are positions in sorted_states / name-sorted parameters / monitored assignments; initial values are "
            "emitted slot by slot along the same enumerations; rhs, monitor_values and all three schemes write derivative x to slot count_sd "
            "(lemmas L1: that is the position of its state in sorted_states); state unpack uses positions before filtering; all 6 rhs and 24 "
            "scheme argument orders only permute the formals (exhaustive, numpy and C). Bounded: templates executed / compiled on instances.",
            "WF(ode) (unique names, one derivative per state) is assumed here and is C08's obligation"),
    "C05": ("proof", "Proved: explicit_euler emits, per derivative, values[slot] = state + dt*derivative after the definitions (loop invariant, "
            "all models); the four aliases map to it and the emitted function is named as requested without touching the module-level function; "
            "CodeGenerator.scheme unpacks all states and forwards remove_unused; add_schemes calls it once per member.",
            "printer and template meaning assumed/bounded; lemma L3.euler (induction): executing euler_emit leaves state + dt * (value of the derivative expression) in the state's slot, state and dt being the input values"),
    "C06": ("proof", "Proved: generalized_rush_larsen emits grl_emit (Euler when is_zero(g), else linearised symbol + RL term, guard unless "
            "fraction_numerator_is_nonzero); fraction_numerator_is_nonzero(e) implies den(e) != 0 wherever the reciprocals of e are defined "
            "(denotational contract, induction lemmas); lemma L4: the emitted term denotes (f/g)(exp(g dt)-1) guarded by |g| > delta with the "
            "Euler fallback dt*f; delta forwarding through add_schemes / get_code / CLI. Known finding: delta is not honoured when the "
            "guard is omitted; generation fails for floor/Mod of the own state.",
            "sympy diff/is_zero/is_nonzero assumed; limits dt->0 and exactness for affine rates are analytic corollaries, not SMT obligations"),
    "C07": ("proof", "Proved: hybrid_rush_larsen emits, per derivative, the generalized RL statements if the state's name is in stiff_states and the "
            "Euler statement otherwise, written with the same spec functions as C05/C06 (so the three functions cannot diverge); None and [] "
            "mean no stiff state; foreign names are only ever compared with state names; add_schemes forwards stiff_states to the hybrid scheme only.",
            "as C05/C06"),
    "C08": ("proof", "Proved: the predicate that decides whether a second definition of a name is the same definition (_same_definition: same "
            "kind, and same expression tree / same value) ; TreeToODE.ode (nested loops over lines, atoms and component names, nested dict of sets) returns normally only if any two definitions "
            "of one name are the same definition, puts every atom into each of its components and freezes every row unchanged; a normal return of "
            "sort_assignments implies the dependency graph is acyclic and no assignment has a None value (CycleError / GotranxError otherwise); "
            "a variable node resolved by build_expression is a defined symbol (MissingSymbolError otherwise); check_components returns normally only if "
            "in every component the states some derivative refers to are exactly the declared states (is_complete, states_with_derivatives with an "
            "existential witness), ODE.__init__ calls it; Component._handle_assignments returns normally only if every assignment named d<X>_dt "
            "went through a returning find_state(<X>), whose result is a state of the component with that name (StateNotFoundInComponent otherwise).",
            "the regular expression d<X>_dt and the attrs machinery (__attrs_post_init__ runs, generated __init__ stores its arguments) are assumed; "
            "gather_atoms / the symbol_values duplicate check is not under contract (duplicates are decided at TreeToODE.ode)"),
    "C09": ("proof", "Proved: sort_assignments feeds the topological sorter a sequence that is a function of its input only (sorted dependencies), "
            "so its result is a function of the assignments; accessors sort name-unique sets; sorted_assignments, missing_variables are functions "
            "of the model; get_scheme has no effect on module-level state. Every set iteration is executed with an arbitrary fresh order. "
            "Bounded stand-in: byte-identical output across PYTHONHASHSEED 0..3 and histories.",
            "graphlib.static_order assumed to be a function of its add() sequence; lark/transformer stage covered by the bounded stand-in only"),
    "C10": ("proof", "Proved: every order-carrying read of a model goes through a name-sorted accessor of a name-unique set (states, parameters, "
            "state_derivatives, intermediates) or through sort_assignments, whose add() sequence is a function of the name-sorted input; "
            "ODE.__eq__ compares components after sorting by name; TreeToODE.ode puts every atom of every line into each of its components "
            "whatever the position of the line (pointwise over line, entry and component indices), so the component sets do not depend on the "
            "order of blocks, entries or lines. That lark hands a permuted text over as the permuted item list is decided by the bounded "
            "stand-in (all permutations of small models).",
            "lark's LALR tables not under contract"),
    "C11": ("other", "Nothing here is proved for all inputs. Contract instances (bounded) (exhaustive over sympy's six relational operators; And/Or 2..4 operands; Piecewise 2..4 branches): the .ode "
            "printer overrides spell only functions of the grammar (read mechanically from ode.lark), != is written Not(Eq()), E is written exp(1). "
            "Writer glue on instances: what print_ScalarParam / print_assignment / start_odeblock print is put into a minimal model text and read back "
            "by the real loader - value, unit, description, comment and component membership come back as they went in. Closure of sympy's normal "
            "forms under the grammar is decided by the bounded stand-in (save, reload, compare numerically).",
            "bounded in the number of operands/branches; sympy normal forms outside any contract"),
    "C12": ("proof", "Proved: sorted_assignments(remove_unused=True) is the filter of the full sorted list that keeps every non-intermediate, hence "
            "the same derivative subsequence and slots (lemma C12.filter_kept_preserves_sd); dependents() contains every dependency of every "
            "assignment (nested set iteration, pointwise ghosts); _condition is exactly membership in dependents (object invariant from __init__); "
            "state/parameter unpack filters use it and positions before filtering; missing_values keeps requested parameters.",
            "value equality of the two modules is lemma L3 (not machine-proved); bounded stand-in compares both modules numerically"),
    "C13": ("proof", "Proved: missing_variables is the index over the sorted set of used-but-undefined names; the unpack statements read "
            "missing_variables[idx] with the published index; missing_values writes each requested name to its requested slot; the python and C "
            "templates name the function missing_index; model - C keeps exactly the components different from C and C.to_ode() is the model of C "
            "alone. Bounded stand-in: split every component, feed sub-models each other's values.",
            "C backend cannot use missing variables at all (known finding); composition theorem L3 not machine-proved"),
    "C14": ("other", "Contract instances (bounded; only the shape-prologue text is proved for all inputs): every gotranx printer override emits only elementwise numpy calls (no if-expression, no and/or/not, no "
            "tuple stacking) - And/Or 2..4 operands, Not, sign, Equality, Piecewise 2..4 branches; _shape_info text per Shape member; python "
            "method template allocates before the body. Bounded stand-in: (n_states, N) batches vs column-by-column.",
            "inherited sympy printer methods assumed; bounded in operand count"),
    "C16": ("proof", "Proved: remove_singularities returns the expression unchanged without removable singularities and agrees with it off the "
            "singular points when there is at most one removable singularity (sum-of-conditionals lemma by induction over an arbitrary set "
            "iteration order); Assignment.singularities drops no point that sympy reports for a stateful dependency, whatever kind of value the point "
            "is, and pairs it with sympy's limit there; Singularity.is_infinite is exactly 'the limit mentions an infinity'. The unrestricted "
            "clause fails for two or more removable singularities: listed known finding (pinned by an existing test).",
            "sympy singularities/limit/piecewise_fold assumed"),
    "C17": ("proof", "Proved: get_unit_and_comment_from_assignment never lets an exception escape, whatever pint raises for the comment text "
            "(assumed: pint may raise anything); TreeToODE.ode skips Comment and blank-string items and their presence does not affect which "
            "component an atom lands in. Placement of comments/blank lines/continuations is decided by the grammar (LALR tables): "
            "bounded stand-in inserts comments at every line boundary.",
            "termination (hang on `# 9**9**9`) is outside partial correctness: bounded only; grammar-level findings are listed"),
    "C18": ("proof", "Proved: ode2py/ode2c/convert forward every declared option (configuration file entries overriding the command line) to "
            "gotran2py.main/gotran2c.main; main loads, generates, then writes exactly the generated text to (fname|outname).with_suffix and "
            "writes nothing on an exceptional exit; get_code builds the generator with every option and contains every part. "
            "Bounded stand-in runs `python -m gotranx` in scratch directories.",
            "typer parsing and exit status assumed; read_config body not under contract"),
    "C19": ("proof", "Proved: every generator refuses (ReservedNameError) a model in which a state, parameter or intermediate has a name for which "
            "is_reserved_name holds - _check_reserved_names filters exactly those names (comprehension lemma + induction lemma: an empty clash list "
            "means no reserved name at any index) and __init__ calls it; is_reserved_name is membership in the class's reserved_names or the "
            "_linearized suffix (JAX: also the _values_ prefix). Inventory (bounded instances / literals, the reserved sets and is_reserved_name "
            "bodies being read and executed from the source): whatever the python / jax / C method templates add around their holes, the formals "
            "and array names of all 6+24 argument orders, the shape prologue, the names listed in the property statement, the numerical library "
            "roots and every name sympy's C printer can emit are reserved. Bounded stand-in: 65 identifiers x role x back end against the renamed model.",
            "language keywords are renamed by sympy's printers (reserved_words + '_'): assumed, checked only by the bounded stand-in; the inventory is "
            "by instance, not a proof that no other identifier can ever be emitted; a model that uses both k and k_ for a keyword k is not covered"),
    "C20": ("proof", "Proved: states_matrix lists symbols of sorted_states (same order as state_index); rhs_matrix returns for every acyclic model "
            "(no RuntimeError for any depth: loop variant), with every intermediate and every referenced state derivative expanded, obtained "
            "from the derivative expressions by xreplace passes; jacobi_matrix is jacobian(rhs_matrix, states_matrix).",
            "sympy Matrix/xreplace/has/jacobian assumed; numeric equality checked by the bounded stand-in (finite differences)"),
}

NOT_APPLICABLE = {
    "C15": "Myokit's evaluator and its sympy writer are outside every contract within reach: the dynamics clause cannot be expressed as a contract "
           "on gotranx code; only a bounded comparison exists (replay/oracles/c15.py), which is not claimed as a check of this family",
}


def main():
    props = [json.loads(l) for l in open(HERE / "properties.jsonl")]
    checks = []
    for p in props:
        pid = p["id"]
        if pid not in CLAIMS:
            continue
        cat, text, note = CLAIMS[pid]
        checks.append({
            "property_id": pid,
            "quick_cmd": f"./check {pid} --tier quick",
            "thorough_cmd": f"./check {pid} --tier thorough",
            "evidence_file": f"/verif/evidence/{pid}.json",
            "replay_cmd_template": "./check --replay {path}",
            "engine": "pyvc",
            "level_claimed": {"category": cat, "text": text, "design_ref": f"DESIGN.md section 6 ({pid}) and section 13"},
            "level_note": TRUST + note,
            "technique": ("contract instances on the real printer overrides (bodies executed by the VC generator's interpreter on hole strings, result "
                          "checked by CPython ast / the grammar's terminal list) + class frame; labelled bounded, nothing counted as proved; "
                          "bounded oracle stand-in for everything else"
                          if cat == "other" else
                          "contract-based deductive verification: sidecar contracts on the real functions, own ast->SMT VC generator, z3 + cvc5; "
                          "bounded oracle stand-in (labelled bounded) for replay and for clauses outside every contract"),
        })
    m = {
        "version": 1,
        "setup_cmd": "./check --selftest-tools",
        "hooks": {"guard": "GOTRANX_VERIF", "enable": "none: contracts are sidecar files under /verif/contracts; /repo is never instrumented; "
                  "the verified text is extracted from /repo's working tree on every run",
                  "baseline_off_cmd": "python3 /verif/tools/baseline.py", "source_commits": [], "add_only": True},
        "engines": [{"name": "pyvc", "path": "/verif/pyvc", "serves_properties": sorted(CLAIMS),
                     "kind_free_text": "verification-condition generator for a Python subset (ast -> z3/cvc5) with sidecar contracts, loop invariants, "
                                       "ghost state and induction lemmas; plus /verif/replay bounded oracle harness (sub-process under /venv/bin/python)"}],
        "checks": checks,
        "notes": "Exit codes of ./check: 0 held / 1 VIOLATION / 2 undecided / 3 checker error. Known findings: /verif/known_findings.json.",
        "not_applicable": [{"property_id": k, "reason": v} for k, v in sorted(NOT_APPLICABLE.items())],
    }
    (HERE / "MANIFEST.json").write_text(json.dumps(m, indent=1))
    print("claimed", len(checks), "not applicable", len(NOT_APPLICABLE))


if __name__ == "__main__":
    main()
