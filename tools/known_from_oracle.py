#!/usr/bin/env python3
"""Helper used by hand while triaging: list oracle signatures (from out/*.json) that no known finding covers.
It never edits known_findings.json."""
import glob
import json
import sys
from pathlib import Path

HERE = Path(__file__).resolve().parent.parent
known = [k for k in json.load(open(HERE / "known_findings.json"))["findings"] if k.get("status") == "known" and k.get("kind") == "oracle"]
paths = sys.argv[1:] or sorted(glob.glob(str(HERE / "out" / "oracle_*_quick.json")) + glob.glob(str(HERE / "out" / "harvest" / "*.json")))
seen = {}
for f in paths:
    d = json.load(open(f))
    for x in d.get("failures", []):
        seen.setdefault((d["property"], x["signature"]), (x, f))
for (pid, sig), (x, f) in sorted(seen.items()):
    cov = [k["id"] for k in known if k["property"] == pid and sig.startswith(k["match"])]
    if not cov:
        print("UNCOVERED", pid, sig, "::", x.get("what", "")[:100], "[", Path(f).name, "]")
print(len(seen), "signatures seen")
