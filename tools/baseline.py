#!/usr/bin/env python3
"""Run the repository's pinned baseline (guard off: there are no hooks) and compare with BASELINE.json stable_pass."""
import json
import os
import subprocess
import sys
import tempfile
import xml.etree.ElementTree as ET

base = json.load(open("/root/.vp/BASELINE.json"))
out = tempfile.mktemp(suffix=".xml")
REPO = os.environ.get("GOTRANX_REPO", "/repo")
ENV = dict(os.environ)
if REPO != "/repo":
    ENV["PYTHONPATH"] = f"{REPO}/src"
subprocess.run(["/venv/bin/python", "-m", "pytest", "-ra", "-q", "-p", "no:cacheprovider", "--timeout=900",
                "--continue-on-collection-errors", f"--junitxml={out}"] + sys.argv[1:], cwd=REPO, env=ENV,
               stdout=subprocess.DEVNULL, stderr=subprocess.DEVNULL)
passed = set()
for tc in ET.parse(out).getroot().iter("testcase"):
    if not any(ch.tag in ("failure", "error", "skipped") for ch in tc):
        passed.add(f"{tc.get('classname')}::{tc.get('name')}")
os.unlink(out)
missing = [t for t in base["stable_pass"] if t not in passed]
print(f"stable_pass={len(base['stable_pass'])} passed_now={len(passed)} missing={len(missing)}")
for m in missing[:40]:
    print("  MISSING", m)
sys.exit(1 if missing else 0)
